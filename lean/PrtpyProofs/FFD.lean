/-
  PrtpyProofs.FFD — property C09 for the *decreasing* variants: first fit decreasing (`ffDecreasing`) and
  best fit decreasing (`bfDecreasing`) against the optimum (`Packable B m`, `optBins`).

  Proved (all for a non-empty input; `k` = number of bins of the run, `m` any number of bins that suffices):

      ffd_three_halves          2·k ≤ 3·m            absolute ratio 3/2 (Simchi-Levi 1994)          FFD
      bfd_three_halves          2·k ≤ 3·m                                                            BFD
      ffd_partial_four_thirds   3·k ≤ 4·m + 1        FFD ≤ 4/3·OPT + 1/3  (textbook `(4·OPT + 1)/3`)   FFD
      bfd_partial_four_thirds   3·k ≤ 4·m + 1                                                        BFD
      anyfit_sorted_four_thirds, gen_sorted_four_thirds, gen_sorted_three_halves
                                the same for *every* any-fit rule (`Fit.Step`) on a sorted input
      ffd_eleven_ninths_of_opt_small   9·k ≤ 11·m + 6   (C09 exactly) when m ∈ {1,2,3,4,6,7}            FFD
      bfd_eleven_ninths_of_opt_small   9·k ≤ 11·m + 36  (C09 exactly) when m ≤ 33                       BFD
      ffd/bfd_eleven_ninths_of_last_small   9·k ≤ 11·m + 8 when the first item of the last bin is ≤ 2B/11
      ffd/bfd_opt_of_last_big               k ≤ m          when the first item of the last bin is > B/3
      ffd_opt, bfd_opt          the same against the oracle `optBins`
      …_all                     variants without `items ≠ []` (additive `+2` resp. `+3`: the model packs the empty
                                list into one empty bin while `Packable B 0 []`)

  NOT proved: `9·FFD ≤ 11·OPT + c` (Johnson 1973, Baker 1985, Yue 1991, Dósa 2007) for unbounded `OPT`.
  What is missing is exactly the case where the item `a` that opens the last bin satisfies `2B/11 < a ≤ B/3`
  (§8 proves the two outer cases); there the classical proofs need a long case analysis of the packing.

  The proofs.

  §2  **Lemma 1** (`tailSmall_foldl`): for every any-fit rule on a sorted input that fits into `m ≥ 1` bins, every
      item that ends up in a bin beyond the first `m` is at most `B/3`.  Induction over the prefixes `P ++ [x]` of
      the sorted list: if `x > B/3` then all items so far exceed `B/3`, so at most `m` bins are open, and if exactly
      `m` are open `LPT43.large_fits` (a counting statement about arbitrary arrangements of items above `B/3`)
      gives a bin with room for `x`.
  §3–4 **3/2, Simchi-Levi's way**, on the list of bins: the bins beyond the first `m` hold items `≤ B/3`, hence (any
      fit) at least three items each, except the last.  Their first two items do not fit into any of the first `m`
      bins (`FF17.Rel`, the invariant kept by first fit and best fit).  `m` or more such witnesses would make the
      total exceed `m·B` (`witness_count`, by pairing each of the first `m` bins with a witness).  So
      `2·(k − m) − 1 < m`.
  §5–6 **4/3 for first fit** (the textbook proof): with first fit *no* item of a later bin fits into an earlier
      bin (`AllFit`), so there are at most `m − 1` items beyond the first `m` bins, three per bin.
  §7  **4/3 for every any-fit rule**: induction over the prefixes again.  When an item `a` opens a new bin, every
      open bin is filled above `B − a`, every packed item is `≥ a`, `a ≤ B/3` and the bins beyond the first `m`
      hold at least three items: volume `> m·(B − a) + 3·a·(k − m) + a`, which is at most `m·B`.
      (This is the "minimal counterexample" normal form of the classical proofs, obtained without removing items.)
  §8  the two easy halves of Johnson's theorem.  §9 corollaries.  §10 non-vacuity (both bounds are attained by
      `[4, 4, 3, 3, 3, 3]`, `B = 10`: `OPT = 2`, `FFD = BFD = 3`).

  Validation by `#eval` before proving (scratch files, not part of the build): `9·FFD ≤ 11·OPT + 6`,
  `9·BFD ≤ 11·OPT + 36`, `3·FFD ≤ 4·OPT + 1`, `3·BFD ≤ 4·OPT + 1`, `2·FFD ≤ 3·OPT`, `2·BFD ≤ 3·OPT` against
  `optBins` on all 125 969 non-empty multisets of ≤ 8 values for `B = 12`, all 1 947 791 of ≤ 6 values for `B = 30`, all 125 969 of ≤ 8 values in `5..16` for `B = 30`; and 8 000 random
  instances built from 3–30 full bins (`B = 100, 61`) against the constructed optimum.  No violation of any of
  them (in particular none of C09); `FFD − OPT ≤ 1` throughout the exhaustive sets.
-/
import Prtpy
import PrtpyProofs.Fit
import PrtpyProofs.LPT43
import PrtpyProofs.FF17
import PrtpyProofs.Checkers
open Prtpy

namespace Prtpy.FFD

variable {α : Type}

/-! ## 1. Small facts -/

/-- a non-empty list of values needs at least one bin -/
theorem packable_pos {B m : Nat} {vals : List Nat} (h : Packable B m vals) (hne : vals ≠ []) : 1 ≤ m := by
  obtain ⟨asg, ⟨hlen, hlt⟩, _⟩ := h
  cases asg with
  | nil => exact absurd (List.length_eq_zero_iff.1 hlen.symm) hne
  | cons a t => have := hlt a (by simp); omega

/-! ## 2. The bins beyond the first `m` hold only items of size at most `B/3` -/

/-- every item of a bin with index `≥ m` is at most `B/3` -/
def TailSmall (v : α → Nat) (B m : Nat) (b : Bins α) : Prop :=
  ∀ j, m ≤ j → ∀ y ∈ b.lists.getD j [], 3 * v y ≤ B

/-- while the items are larger than `B/3`, at most `m` bins are open -/
theorem len_le_of_big {v : α → Nat} {B m : Nat} {P : List α} {b : Bins α} {x : α} (hm : 1 ≤ m)
    (hinv : Fit.Inv v B P b) (hts : TailSmall v B m b) (hs : ∀ a ∈ P, v x ≤ v a) (hx : B < 3 * v x) :
    b.lists.length ≤ m := by
  apply Nat.le_of_not_lt
  intro hlt
  by_cases hP : P = []
  · have := hinv.first hP
    rw [this] at hlt
    simp at hlt
    omega
  · have hne := hinv.nonempty hP _ (List.getElem_mem hlt)
    obtain ⟨z, hz⟩ := List.exists_mem_of_ne_nil _ hne
    have h1 := hts m (Nat.le_refl _) z (by rw [FF17.getD_lists hlt]; exact hz)
    have hzP : z ∈ P := hinv.perm.mem_iff.1 (List.mem_flatten.2 ⟨_, List.getElem_mem hlt, hz⟩)
    have := hs z hzP
    omega

/-- one any-fit step on a sorted input keeps `TailSmall`: an item above `B/3` never opens bin `m + 1`
    (`LPT43.large_fits`: the smallest of a set of items above `B/3` that fits into `m` bins fits into some bin of
    every arrangement of the others into `m` bins) -/
theorem tailSmall_step {v : α → Nat} {B m : Nat} {P : List α} {b b' : Bins α} {x : α} (hm : 1 ≤ m)
    (hinv : Fit.Inv v B P b) (hts : TailSmall v B m b) (hs : ∀ a ∈ P, v x ≤ v a)
    (hf : Packable B m ((P ++ [x]).map v)) (hstep : Fit.Step v B b x b') : TailSmall v B m b' := by
  have hl := hinv.len
  have hlen : B < 3 * v x → b.lists.length ≤ m := len_le_of_big hm hinv hts hs
  rcases hstep with ⟨i, hi, hfit, rfl⟩ | ⟨hno, rfl⟩
  · intro j hj y hy
    have hi' : i < b.lists.length := by omega
    simp only [Bins.add, List.getD_eq_getElem?_getD] at hy
    by_cases hjl : j < b.lists.length
    · rw [List.getElem?_eq_getElem (by simpa using hjl)] at hy
      simp only [Option.getD_some, List.getElem_modify] at hy
      split at hy
      · rcases List.mem_append.1 hy with hy | hy
        · exact hts j hj y (by rw [FF17.getD_lists hjl]; exact hy)
        · simp only [List.mem_singleton] at hy
          subst hy
          apply Nat.le_of_not_lt
          intro hbig
          have := hlen hbig
          omega
      · exact hts j hj y (by rw [FF17.getD_lists hjl]; exact hy)
    · rw [List.getElem?_eq_none (by simpa using hjl)] at hy
      simp at hy
  · rw [Fit.addEmpty_add v b x hl]
    intro j hj y hy
    simp only [List.getD_eq_getElem?_getD] at hy
    by_cases hjl : j < b.lists.length
    · rw [List.getElem?_append_left hjl] at hy
      exact hts j hj y (by simpa [List.getD_eq_getElem?_getD] using hy)
    · by_cases hje : j = b.lists.length
      · subst hje
        simp at hy
        subst hy
        apply Nat.le_of_not_lt
        intro hbig
        have hle := hlen hbig
        have hlm : b.lists.length = m := by omega
        obtain ⟨l', hl', hfit⟩ := LPT43.large_fits (T := B) (k := m) (m := v y) (vals := P.map v)
          (b.lists.map (List.map v)) (by simpa using hlm)
          (by rw [← List.map_flatten]; exact hinv.perm.map v) (by simpa using hf)
          (fun z hz => by obtain ⟨a, ha, rfl⟩ := List.mem_map.1 hz; exact hs a ha) hbig
        obtain ⟨l, hl2, rfl⟩ := List.mem_map.1 hl'
        have hmem : binSum v l ∈ b.sums := by rw [hinv.cons]; exact List.mem_map.2 ⟨l, hl2, rfl⟩
        have := hno _ hmem
        have e : binSum v l = sumL (l.map v) := rfl
        omega
      · rw [List.getElem?_eq_none (by simp; omega)] at hy
        simp at hy

/-- **Lemma 1** (for every any-fit rule on a sorted input): if the items fit into `m ≥ 1` bins, every item that
    ends up in a bin beyond the first `m` is at most `B/3` -/
theorem tailSmall_foldl {v : α → Nat} {B m : Nat} {step : Bins α → α → Bins α}
    (hstep : ∀ b x, Fit.Step v B b x (step b x)) (hm : 1 ≤ m) :
    ∀ xs : List α, xs.Pairwise (fun a c => v c ≤ v a) → Packable B m (xs.map v) →
      TailSmall v B m (xs.foldl step (Bins.new 1)) := by
  intro xs
  induction xs using Oracle.rev_induction with
  | nil =>
    intro _ _ j hj y hy
    have : (Bins.new 1 : Bins α).lists = [[]] := rfl
    simp only [List.foldl_nil, this, List.getD_eq_getElem?_getD] at hy
    match j, hj with
    | j + 1, _ => simp at hy
  | snoc P x ih =>
    intro hs hf
    obtain ⟨hs1, _, hs2⟩ := List.pairwise_append.1 hs
    have hfP : Packable B m (P.map v) := by
      rw [List.map_append] at hf; exact LPT43.packable_prefix _ hf
    have hall : ∀ a ∈ P, v a ≤ B := fun a ha => LPT43.packable_item_le hfP (List.mem_map_of_mem ha)
    have hinv : Fit.Inv v B P (P.foldl step (Bins.new 1)) := by
      simpa using Fit.inv_foldl step hstep P [] (Bins.new 1) hall (Fit.inv_init v B)
    rw [List.foldl_append]
    simp only [List.foldl_cons, List.foldl_nil]
    exact tailSmall_step hm hinv (ih hs1 hfP) (fun a ha => hs2 a ha x (by simp)) hf (hstep _ _)


theorem TailSmall.drop {v : α → Nat} {B m : Nat} {b : Bins α} (h : TailSmall v B m b) :
    ∀ L ∈ b.lists.drop m, ∀ y ∈ L, 3 * v y ≤ B := by
  intro L hL y hy
  obtain ⟨j, hj, rfl⟩ := List.mem_drop_iff_getElem.1 hL
  exact h (m + j) (by omega) y (by rw [FF17.getD_lists (by omega)]; exact hy)

/-! ## 3. Counting -/

/-- `t` bin sums and at least `t` values none of which fits on top of any of these sums: together more than
    `t · B` -/
theorem pairing_sum (B : Nat) : ∀ (a w : List Nat), a.length ≤ w.length → (∀ s ∈ a, ∀ y ∈ w, B < s + y) →
    a.length * (B + 1) ≤ sumL a + sumL w
  | [], _, _, _ => by simp
  | _ :: _, [], h, _ => by simp at h
  | s :: a, y :: w, h, hfit => by
    have h1 := hfit s (by simp) y (by simp)
    have ih := pairing_sum B a w (by simpa using h)
      (fun s' hs' y' hy' => hfit s' (List.mem_cons_of_mem _ hs') y' (List.mem_cons_of_mem _ hy'))
    simp only [List.length_cons, sumL, Nat.add_mul] at ih ⊢
    omega

/-- **Lemma 2**: the first `m` bins `P` of a packing of items that fit into `m` bins, and a list `W` of other
    items none of which fits into any bin of `P`: there are fewer than `m` such items -/
theorem witness_count {v : α → Nat} {B m : Nat} {P : List (List α)} {W : List α}
    (hfit : ∀ L ∈ P, ∀ y ∈ W, B < binSum v L + v y)
    (hsum : binSum v P.flatten + binSum v W ≤ m * B) (hP : P.length = m) (hm : 1 ≤ m) : W.length < m := by
  apply Nat.lt_of_not_le
  intro hle
  have := pairing_sum B (P.map (binSum v)) (W.map v) (by simpa [hP] using hle) (by
    intro s hs y hy
    obtain ⟨L, hL, rfl⟩ := List.mem_map.1 hs
    obtain ⟨z, hz, rfl⟩ := List.mem_map.1 hy
    exact hfit L hL z hz)
  rw [Fit.sumL_map_binSum, List.length_map, hP, Nat.mul_add] at this
  have e : sumL (W.map v) = binSum v W := rfl
  omega

/-- a bin of items `≤ B/3` into which an item `≤ B/3` does not fit holds at least three items -/
theorem three_items {v : α → Nat} {B : Nat} {L L' : List α} (h : FF17.Rel v B L L')
    (hL : ∀ y ∈ L, 3 * v y ≤ B) (hL' : ∀ y ∈ L', 3 * v y ≤ B) : 3 ≤ L.length := by
  obtain ⟨⟨x, hx, hlt⟩, _⟩ := h
  have hx' : 3 * v x ≤ B := hL' x (List.mem_of_head? hx)
  match L, hL, hlt with
  | [], _, hlt => simp [binSum, sumL] at hlt; omega
  | [a], hL, hlt =>
    have := hL a (by simp)
    simp [binSum, sumL] at hlt; omega
  | [a, c], hL, hlt =>
    have := hL a (by simp)
    have := hL c (by simp)
    simp [binSum, sumL] at hlt; omega
  | _ :: _ :: _ :: _, _, _ => simp

/-- the first two items of every bin -/
def wit2 : List (List α) → List α
  | [] => []
  | L :: E => L.take 2 ++ wit2 E

theorem binSum_take_le (v : α → Nat) (L : List α) (n : Nat) : binSum v (L.take n) ≤ binSum v L := by
  have : binSum v L = binSum v (L.take n) + binSum v (L.drop n) := by
    rw [← Fit.binSum_append, List.take_append_drop]
  omega

theorem wit2_sum (v : α → Nat) : ∀ E : List (List α), binSum v (wit2 E) ≤ binSum v E.flatten
  | [] => by simp [wit2]
  | L :: E => by
    have := wit2_sum v E
    have := binSum_take_le v L 2
    simp only [wit2, List.flatten_cons, Fit.binSum_append]
    omega

/-- the first two items of a later bin whose items are at most `B/2` do not fit into an earlier bin -/
theorem wit2_fit {v : α → Nat} {B : Nat} {L : List α} : ∀ E : List (List α),
    (∀ L' ∈ E, FF17.Rel v B L L') → (∀ L' ∈ E, ∀ y ∈ L', 2 * v y ≤ B) →
    ∀ y ∈ wit2 E, B < binSum v L + v y
  | [], _, _, y, hy => by simp [wit2] at hy
  | L' :: E, hr, hs, y, hy => by
    simp only [wit2, List.mem_append] at hy
    rcases hy with hy | hy
    · obtain ⟨⟨x, hx, hlt⟩, h2⟩ := hr L' (by simp)
      match L', hx, hy, h2, hs with
      | [a], hx, hy, _, _ =>
        simp at hx hy; subst hx; subst hy; exact hlt
      | a :: c :: r, hx, hy, h2, hs =>
        simp at hx hy
        subst hx
        rcases hy with rfl | rfl
        · exact hlt
        · exact h2 a y r rfl (hs (a :: y :: r) (by simp) a (by simp))
    · exact wit2_fit E (fun M hM => hr M (List.mem_cons_of_mem _ hM))
        (fun M hM => hs M (List.mem_cons_of_mem _ hM)) y hy

/-- bins of items `≤ B/3`: all but the last one contribute two witnesses, the last one at least one -/
theorem wit2_len {v : α → Nat} {B : Nat} : ∀ E : List (List α), E.Pairwise (FF17.Rel v B) →
    (∀ L ∈ E, ∀ y ∈ L, 3 * v y ≤ B) → (∀ L ∈ E, L ≠ []) → 2 * E.length ≤ (wit2 E).length + 1
  | [], _, _, _ => by simp
  | [L], _, _, hne => by
    have := hne L (by simp)
    match L, this with
    | [_], _ => simp [wit2]
    | _ :: _ :: _, _ => simp [wit2]
  | L :: L' :: E, hp, hs, hne => by
    rw [List.pairwise_cons] at hp
    have h3 := three_items (hp.1 L' (by simp)) (hs L (by simp)) (hs L' (by simp))
    have ih := wit2_len (L' :: E) hp.2 (fun M hM => hs M (List.mem_cons_of_mem _ hM))
      (fun M hM => hne M (List.mem_cons_of_mem _ hM))
    have : (L.take 2).length = 2 := by rw [List.length_take]; omega
    simp only [wit2, List.length_append, List.length_cons] at ih ⊢
    omega

/-- the same with all items: all bins but the last one hold at least three items -/
theorem flat_len {v : α → Nat} {B : Nat} : ∀ E : List (List α), E.Pairwise (FF17.Rel v B) →
    (∀ L ∈ E, ∀ y ∈ L, 3 * v y ≤ B) → (∀ L ∈ E, L ≠ []) → 3 * E.length ≤ E.flatten.length + 2
  | [], _, _, _ => by simp
  | [L], _, _, hne => by
    have := hne L (by simp)
    match L, this with
    | _ :: _, _ => simp
  | L :: L' :: E, hp, hs, hne => by
    rw [List.pairwise_cons] at hp
    have h3 := three_items (hp.1 L' (by simp)) (hs L (by simp)) (hs L' (by simp))
    have ih := flat_len (L' :: E) hp.2 (fun M hM => hs M (List.mem_cons_of_mem _ hM))
      (fun M hM => hne M (List.mem_cons_of_mem _ hM))
    simp only [List.flatten_cons, List.length_append, List.length_cons] at ih ⊢
    omega

/-- **the absolute bound 3/2 on a list of bins**: `Rel` pairwise (first fit or best fit), only items `≤ B/3`
    beyond the first `m` bins, no empty bin, and the items fit into `m ≥ 1` bins -/
theorem bins_three_halves {v : α → Nat} {B m : Nat} {Ls : List (List α)} (hp : Ls.Pairwise (FF17.Rel v B))
    (hsmall : ∀ L ∈ Ls.drop m, ∀ y ∈ L, 3 * v y ≤ B) (hne : ∀ L ∈ Ls, L ≠ [])
    (htot : binSum v Ls.flatten ≤ m * B) (hm : 1 ≤ m) : 2 * Ls.length ≤ 3 * m := by
  by_cases hk : Ls.length ≤ m
  · omega
  · have hsplit := List.take_append_drop m Ls
    have hp' := hp
    rw [← hsplit, List.pairwise_append] at hp'
    obtain ⟨_, hpE, hPE⟩ := hp'
    have hPlen : (Ls.take m).length = m := by rw [List.length_take]; omega
    have hElen : (Ls.drop m).length = Ls.length - m := List.length_drop
    have hneE : ∀ L ∈ Ls.drop m, L ≠ [] := fun L hL => hne L (List.mem_of_mem_drop hL)
    have hw := witness_count (v := v) (B := B) (m := m) (P := Ls.take m) (W := wit2 (Ls.drop m))
      (fun L hL y hy => wit2_fit (Ls.drop m) (fun L' hL' => hPE L hL L' hL')
        (fun L' hL' y hy => by have := hsmall L' hL' y hy; omega) y hy)
      (by
        have h1 := wit2_sum v (Ls.drop m)
        have h2 : binSum v Ls.flatten = binSum v (Ls.take m).flatten + binSum v (Ls.drop m).flatten := by
          rw [← Fit.binSum_append, ← List.flatten_append, hsplit]
        omega) hPlen hm
    have hl := wit2_len (Ls.drop m) hpE hsmall hneE
    omega


/-! ## 4. The absolute bound 3/2 (Simchi-Levi 1994), for first fit decreasing and best fit decreasing -/

theorem sortDesc_ne_nil (v : α → Nat) {items : List α} (h : items ≠ []) : sortDesc v items ≠ [] := by
  intro h0
  have := (Part.sortDesc_perm v items).length_eq
  rw [h0] at this
  exact h (List.length_eq_zero_iff.1 this.symm)

/-- every "almost first fit" rule (`FF17.Step2`: first fit, best fit) on a non-empty input sorted by
    non-increasing value uses at most `3/2 · m` bins when `m` bins suffice -/
theorem gen_three_halves {v : α → Nat} {B m : Nat} {step : Bins α → α → Bins α} {xs : List α} {b : Bins α}
    (hstep : ∀ b x, FF17.Step2 v B b x (step b x)) (hsorted : xs.Pairwise (fun a c => v c ≤ v a))
    (hne : xs ≠ []) (hok : Fit.genLoop v B step (Bins.new 1) xs = .ok b) (hm : Packable B m (xs.map v)) :
    2 * b.lists.length ≤ 3 * m := by
  have hm1 : 1 ≤ m := packable_pos hm (by simpa using hne)
  have hinv := FF17.gen_inv2 hstep hok
  have hall := Fit.gen_ok_all_le hok
  rw [Fit.genLoop_ok v B step xs _ hall] at hok
  cases hok
  have hts := tailSmall_foldl (fun b x => (hstep b x).toStep) hm1 xs hsorted hm
  apply bins_three_halves hinv.pairwise hts.drop (hinv.inv.nonempty hne) _ hm1
  rw [Fit.binSum_perm hinv.inv.perm]
  exact LPT43.packable_sum hm

section main
variable {v : α → Nat} {B m : Nat} {items : List α} {b : Bins α}

/-- **C09, first fit decreasing, absolute ratio 3/2** (Simchi-Levi 1994): `FFD ≤ 3/2 · OPT`.
    The input must not be empty: for `items = []` the model returns one (empty) bin while `Packable B 0 []`. -/
theorem ffd_three_halves (hne : items ≠ []) (hok : ffDecreasing v B items = .ok b)
    (hm : Packable B m (items.map v)) : 2 * b.lists.length ≤ 3 * m := by
  simp only [ffDecreasing, ffOnline, Fit.ffLoop_eq] at hok
  exact gen_three_halves (FF17.ffStep_step2 v B) (Part.sortDesc_sorted v items) (sortDesc_ne_nil v hne) hok
    (FF17.packable_sortDesc hm)

/-- **best fit decreasing, absolute ratio 3/2** -/
theorem bfd_three_halves (hne : items ≠ []) (hok : bfDecreasing v B items = .ok b)
    (hm : Packable B m (items.map v)) : 2 * b.lists.length ≤ 3 * m := by
  simp only [bfDecreasing, bfOnline, Fit.bfLoop_eq] at hok
  exact gen_three_halves (FF17.bfStep_step2 v B) (Part.sortDesc_sorted v items) (sortDesc_ne_nil v hne) hok
    (FF17.packable_sortDesc hm)

/-- without the hypothesis `items ≠ []` -/
theorem ffd_three_halves_all (hok : ffDecreasing v B items = .ok b) (hm : Packable B m (items.map v)) :
    2 * b.lists.length ≤ 3 * m + 2 := by
  by_cases hne : items = []
  · subst hne
    cases hok
    simp [Bins.new]
  · have := ffd_three_halves hne hok hm
    omega

theorem bfd_three_halves_all (hok : bfDecreasing v B items = .ok b) (hm : Packable B m (items.map v)) :
    2 * b.lists.length ≤ 3 * m + 2 := by
  by_cases hne : items = []
  · subst hne
    cases hok
    simp [Bins.new]
  · have := bfd_three_halves hne hok hm
    omega

end main


/-! ## 5. First fit: no item of a later bin fits into an earlier bin -/

/-- the first-fit property: no item of a later bin fits into an earlier bin -/
def AllFit (v : α → Nat) (B : Nat) (b : Bins α) : Prop :=
  ∀ i j, i < j → j < b.lists.length → ∀ y ∈ b.lists.getD j [], B < b.sums.getD i 0 + v y

theorem allfit_add {v : α → Nat} {B : Nat} {b : Bins α} (x : α) (i : Nat)
    (hl : b.sums.length = b.lists.length) (hi : i < b.lists.length)
    (hfirst : ∀ j (hj : j < i), B < b.sums[j] + v x) (h : AllFit v B b) : AllFit v B (b.add v x i) := by
  intro i' j hij hj y hy
  have hj' : j < b.lists.length := by simpa [Bins.add] using hj
  have hi' : i' < b.sums.length := by omega
  have hsum : b.sums[i'] ≤ (b.add v x i).sums.getD i' 0 := by
    simp only [Bins.add, List.getD_eq_getElem?_getD]
    rw [List.getElem?_eq_getElem (by simpa using hi')]
    simp only [Option.getD_some, List.getElem_modify]
    split <;> omega
  simp only [Bins.add, List.getD_eq_getElem?_getD] at hy
  rw [List.getElem?_eq_getElem (by simpa using hj')] at hy
  simp only [Option.getD_some, List.getElem_modify] at hy
  by_cases hij' : i = j
  · subst hij'
    rw [if_pos rfl] at hy
    rcases List.mem_append.1 hy with hy | hy
    · have := h i' i hij hi y (by rw [FF17.getD_lists hi]; exact hy)
      rw [FF17.getD_sums hi'] at this
      omega
    · simp only [List.mem_singleton] at hy
      subst hy
      have := hfirst i' hij
      omega
  · rw [if_neg hij'] at hy
    have := h i' j hij hj' y (by rw [FF17.getD_lists hj']; exact hy)
    rw [FF17.getD_sums hi'] at this
    omega

theorem allfit_new {v : α → Nat} {B : Nat} {b : Bins α} (x : α)
    (hl : b.sums.length = b.lists.length) (hno : ∀ s ∈ b.sums, ¬ s + v x ≤ B) (h : AllFit v B b) :
    AllFit v B ⟨b.sums ++ [v x], b.lists ++ [[x]]⟩ := by
  intro i j hij hj y hy
  simp only [List.length_append, List.length_cons, List.length_nil] at hj
  have hi : i < b.sums.length := by omega
  by_cases hjl : j < b.lists.length
  · have := h i j hij hjl y
      (by simpa [List.getD_eq_getElem?_getD, List.getElem?_append_left hjl] using hy)
    simpa [List.getD_eq_getElem?_getD, List.getElem?_append_left hi] using this
  · have : j = b.lists.length := by omega
    subst this
    simp [List.getD_eq_getElem?_getD] at hy
    subst hy
    have := hno _ (List.getElem_mem hi)
    simp only [List.getD_eq_getElem?_getD, List.getElem?_append_left hi, List.getElem?_eq_getElem hi,
      Option.getD_some]
    omega

theorem allfit_init (v : α → Nat) (B : Nat) : AllFit v B (Bins.new 1 : Bins α) := by
  intro i j hij hj
  simp [Bins.new] at hj
  omega

theorem allfit_foldl (v : α → Nat) (B : Nat) : ∀ (xs seen : List α) (b : Bins α), (∀ x ∈ xs, v x ≤ B) →
    Fit.Inv v B seen b → AllFit v B b → AllFit v B (xs.foldl (ffStep v B) b)
  | [], _, _, _, _, h => h
  | x :: xs, seen, b, hxs, hinv, h => by
    have hinv' := Fit.inv_step (hxs x List.mem_cons_self) (Fit.ffStep_step v B b x) hinv
    have hl := hinv.len
    refine allfit_foldl v B xs (seen ++ [x]) (ffStep v B b x)
      (fun y hy => hxs y (List.mem_cons_of_mem _ hy)) hinv' ?_
    rcases Fit.ffStep_spec' v B b x with ⟨i, hi, _, hfirst, he⟩ | ⟨hno, he⟩
    · rw [he]
      exact allfit_add x i hl (by omega) (fun j hj => by have := hfirst j hj; omega) h
    · rw [he, Fit.addEmpty_add v b x hl]
      exact allfit_new x hl hno h

theorem ffOnline_allfit {v : α → Nat} {B : Nat} {items : List α} {b : Bins α}
    (h : ffOnline v B items = .ok b) : AllFit v B b := by
  simp only [ffOnline, Fit.ffLoop_eq] at h
  have hall := Fit.gen_ok_all_le h
  rw [Fit.genLoop_ok v B _ items _ hall] at h
  cases h
  exact allfit_foldl v B items [] (Bins.new 1) hall (Fit.inv_init v B) (allfit_init v B)

/-- the bins of a first-fit run, in order: no item of a later bin fits into an earlier one -/
theorem AllFit.pairwise {v : α → Nat} {B : Nat} {b : Bins α} (hc : b.sums = b.lists.map (binSum v))
    (h : AllFit v B b) : b.lists.Pairwise (fun L L' => ∀ y ∈ L', B < binSum v L + v y) := by
  rw [List.pairwise_iff_getElem]
  intro i j hi hj hij y hy
  have hl : b.sums.length = b.lists.length := by rw [hc, List.length_map]
  have hsi : b.sums.getD i 0 = binSum v b.lists[i] := by
    rw [FF17.getD_sums (by rw [hl]; exact hi)]; simp [hc]
  have := h i j hij hj y (by rw [FF17.getD_lists hj]; exact hy)
  rw [hsi] at this
  exact this

/-! ## 6. `FFD ≤ 4/3 · OPT + 1/3` -/

/-- **the bound `(4m + 1)/3` on a list of bins**: the first-fit property, only items `≤ B/3` beyond the first
    `m` bins, no empty bin, and the items fit into `m ≥ 1` bins.  (At most `m − 1` items lie beyond the first
    `m` bins, and these bins hold three items each, except the last one.) -/
theorem bins_four_thirds {v : α → Nat} {B m : Nat} {Ls : List (List α)} (hp : Ls.Pairwise (FF17.Rel v B))
    (hall : Ls.Pairwise (fun L L' => ∀ y ∈ L', B < binSum v L + v y))
    (hsmall : ∀ L ∈ Ls.drop m, ∀ y ∈ L, 3 * v y ≤ B) (hne : ∀ L ∈ Ls, L ≠ [])
    (htot : binSum v Ls.flatten ≤ m * B) (hm : 1 ≤ m) : 3 * Ls.length ≤ 4 * m + 1 := by
  by_cases hk : Ls.length ≤ m
  · omega
  · have hsplit := List.take_append_drop m Ls
    have hp' := hp
    rw [← hsplit, List.pairwise_append] at hp'
    obtain ⟨_, hpE, _⟩ := hp'
    have hall' := hall
    rw [← hsplit, List.pairwise_append] at hall'
    obtain ⟨_, _, hPE⟩ := hall'
    have hPlen : (Ls.take m).length = m := by rw [List.length_take]; omega
    have hElen : (Ls.drop m).length = Ls.length - m := List.length_drop
    have hneE : ∀ L ∈ Ls.drop m, L ≠ [] := fun L hL => hne L (List.mem_of_mem_drop hL)
    have hw := witness_count (v := v) (B := B) (m := m) (P := Ls.take m) (W := (Ls.drop m).flatten)
      (fun L hL y hy => by
        obtain ⟨L', hL', hy'⟩ := List.mem_flatten.1 hy
        exact hPE L hL L' hL' y hy')
      (by
        have h2 : binSum v Ls.flatten = binSum v (Ls.take m).flatten + binSum v (Ls.drop m).flatten := by
          rw [← Fit.binSum_append, ← List.flatten_append, hsplit]
        omega) hPlen hm
    have hl := flat_len (Ls.drop m) hpE hsmall hneE
    omega

section main
variable {v : α → Nat} {B m : Nat} {items : List α} {b : Bins α}

/-- first fit on a non-empty input sorted by non-increasing value: `3 · #bins ≤ 4 · m + 1` -/
theorem ff_sorted_four_thirds {xs : List α} (hsorted : xs.Pairwise (fun a c => v c ≤ v a)) (hne : xs ≠ [])
    (hok : ffOnline v B xs = .ok b) (hm : Packable B m (xs.map v)) : 3 * b.lists.length ≤ 4 * m + 1 := by
  have hm1 : 1 ≤ m := packable_pos hm (by simpa using hne)
  have hinv := FF17.ffOnline_inv2 hok
  have haf := (ffOnline_allfit hok).pairwise hinv.inv.cons
  simp only [ffOnline, Fit.ffLoop_eq] at hok
  have hall := Fit.gen_ok_all_le hok
  rw [Fit.genLoop_ok v B _ xs _ hall] at hok
  cases hok
  have hts := tailSmall_foldl (Fit.ffStep_step v B) hm1 xs hsorted hm
  apply bins_four_thirds hinv.pairwise haf hts.drop (hinv.inv.nonempty hne) _ hm1
  rw [Fit.binSum_perm hinv.inv.perm]
  exact LPT43.packable_sum hm

/-- **C09, first fit decreasing, ratio 4/3**: `FFD ≤ 4/3 · OPT + 1/3` (the textbook bound `(4·OPT + 1)/3`).
    Weaker than Johnson's / Dósa's `11/9 · OPT + 6/9` for `OPT ≥ 9`, equal to it for `OPT ≤ 4` and `OPT = 6, 7`;
    it implies the absolute bound `3/2` (`ffd_three_halves`). -/
theorem ffd_partial_four_thirds (hne : items ≠ []) (hok : ffDecreasing v B items = .ok b)
    (hm : Packable B m (items.map v)) : 3 * b.lists.length ≤ 4 * m + 1 :=
  ff_sorted_four_thirds (Part.sortDesc_sorted v items) (sortDesc_ne_nil v hne) hok (FF17.packable_sortDesc hm)

/-- without the hypothesis `items ≠ []` -/
theorem ffd_partial_four_thirds_all (hok : ffDecreasing v B items = .ok b) (hm : Packable B m (items.map v)) :
    3 * b.lists.length ≤ 4 * m + 3 := by
  by_cases hne : items = []
  · subst hne
    cases hok
    simp [Bins.new]
  · have := ffd_partial_four_thirds hne hok hm
    omega

end main


/-! ## 7. Every any-fit rule on a sorted input: `#bins ≤ (4·m + 1)/3`

A second proof, by induction over the prefixes of the sorted list, which needs nothing but the any-fit property:
when an item `a` opens a new bin, all bins are filled above `B − a`, all items packed so far are at least `a`,
and (Lemma 1) the bins beyond the first `m` hold only items `≤ B/3`, hence at least three of them each. -/

theorem length_mul_le (c : Nat) : ∀ l : List Nat, (∀ s ∈ l, c ≤ s) → l.length * c ≤ sumL l
  | [], _ => by simp
  | s :: l, h => by
    have h1 := h s (by simp)
    have ih := length_mul_le c l (fun s' hs' => h s' (List.mem_cons_of_mem _ hs'))
    simp only [List.length_cons, sumL, Nat.add_mul]
    omega

/-- a bin of items `≤ B/3`, filled above `B − a` with `a ≤ B/3`, holds at least three items -/
theorem three_items' {v : α → Nat} {B a : Nat} {L : List α} (hlt : B < binSum v L + a) (ha : 3 * a ≤ B)
    (hL : ∀ y ∈ L, 3 * v y ≤ B) : 3 ≤ L.length := by
  match L, hL, hlt with
  | [], _, hlt => simp [binSum, sumL] at hlt; omega
  | [c], hL, hlt =>
    have := hL c (by simp)
    simp [binSum, sumL] at hlt; omega
  | [c, d], hL, hlt =>
    have := hL c (by simp)
    have := hL d (by simp)
    simp [binSum, sumL] at hlt; omega
  | _ :: _ :: _ :: _, _, _ => simp

/-- the arithmetic of the volume argument -/
theorem volume_arith {m t B a S1 S2 : Nat} (hm : 1 ≤ m) (haB : a ≤ B) (h1 : m * (B - a + 1) ≤ S1)
    (h2 : t * (3 * a) ≤ S2) (h3 : S1 + S2 + a ≤ m * B) : 3 * t + 2 ≤ m := by
  apply Nat.le_of_not_lt
  intro hlt
  have h4 : m * a ≤ (3 * t + 1) * a := Nat.mul_le_mul_right a (by omega)
  have h5 : (3 * t + 1) * a = t * (3 * a) + a := by
    rw [Nat.add_mul, Nat.one_mul, Nat.mul_comm 3 t, Nat.mul_assoc]
  have h6 : m * (B - a + 1) + m * a = m * B + m := by
    rw [← Nat.mul_add, show B - a + 1 + a = B + 1 by omega, Nat.mul_add, Nat.mul_one]
  omega

/-- the step that opens a new bin -/
theorem new_bin_count {v : α → Nat} {B m : Nat} {P : List α} {b : Bins α} {x : α} (hm : 1 ≤ m)
    (hinv : Fit.Inv v B P b) (hs : ∀ a ∈ P, v x ≤ v a) (hf : Packable B m ((P ++ [x]).map v))
    (hno : ∀ s ∈ b.sums, ¬ s + v x ≤ B)
    (hts : TailSmall v B m ⟨b.sums ++ [v x], b.lists ++ [[x]]⟩) :
    3 * (b.lists.length + 1) ≤ 4 * m + 1 := by
  by_cases hk : b.lists.length + 1 ≤ m
  · omega
  · have hkm : m ≤ b.lists.length := by omega
    have h3a : 3 * v x ≤ B := hts b.lists.length hkm x (by simp [List.getD_eq_getElem?_getD])
    have hxB : v x ≤ B := LPT43.packable_item_le hf (List.mem_map_of_mem (by simp))
    have hts' : TailSmall v B m b := by
      intro j hj y hy
      by_cases hjl : j < b.lists.length
      · exact hts j hj y (by
          simpa [List.getD_eq_getElem?_getD, List.getElem?_append_left hjl] using hy)
      · simp only [List.getD_eq_getElem?_getD] at hy
        rw [List.getElem?_eq_none (by omega)] at hy
        simp at hy
    have hsmall := hts'.drop
    have hsplit := List.take_append_drop m b.lists
    have hfull : ∀ L ∈ b.lists, B < binSum v L + v x := by
      intro L hL
      have : binSum v L ∈ b.sums := by rw [hinv.cons]; exact List.mem_map.2 ⟨L, hL, rfl⟩
      have := hno _ this
      omega
    have hge : ∀ L ∈ b.lists, ∀ y ∈ L, v x ≤ v y := fun L hL y hy =>
      hs y (hinv.perm.mem_iff.1 (List.mem_flatten.2 ⟨L, hL, hy⟩))
    -- the first `m` bins
    have h1 := length_mul_le (B - v x + 1) ((b.lists.take m).map (binSum v)) (by
      intro s hs'
      obtain ⟨L, hL, rfl⟩ := List.mem_map.1 hs'
      have := hfull L (List.mem_of_mem_take hL)
      omega)
    rw [List.length_map, List.length_take, Nat.min_eq_left hkm, Fit.sumL_map_binSum] at h1
    -- the others
    have h2 := length_mul_le (3 * v x) ((b.lists.drop m).map (binSum v)) (by
      intro s hs'
      obtain ⟨L, hL, rfl⟩ := List.mem_map.1 hs'
      have hLm := List.mem_of_mem_drop hL
      have h3 := three_items' (hfull L hLm) h3a (hsmall L hL)
      have h4 := length_mul_le (v x) (L.map v) (by
        intro s hs''
        obtain ⟨y, hy, rfl⟩ := List.mem_map.1 hs''
        exact hge L hLm y hy)
      rw [List.length_map] at h4
      have h5 : 3 * v x ≤ L.length * v x := Nat.mul_le_mul_right _ h3
      exact Nat.le_trans h5 h4)
    rw [List.length_map, List.length_drop, Fit.sumL_map_binSum] at h2
    have htot : binSum v (b.lists.take m).flatten + binSum v (b.lists.drop m).flatten + v x ≤ m * B := by
      have := LPT43.packable_sum hf
      rw [← Fit.binSum_append, ← List.flatten_append, hsplit, Fit.binSum_perm hinv.perm]
      have e : sumL ((P ++ [x]).map v) = binSum v P + v x := by
        simp [binSum, Fit.sumL_append, sumL]
      omega
    have := volume_arith hm hxB h1 h2 htot
    omega

/-- **every any-fit rule on a sorted input** (first fit, best fit, worst fit, … decreasing):
    `#bins ≤ (4·m + 1)/3` whenever `m ≥ 1` bins suffice -/
theorem anyfit_sorted_four_thirds {v : α → Nat} {B m : Nat} {step : Bins α → α → Bins α}
    (hstep : ∀ b x, Fit.Step v B b x (step b x)) (hm : 1 ≤ m) :
    ∀ xs : List α, xs.Pairwise (fun a c => v c ≤ v a) → Packable B m (xs.map v) →
      3 * (xs.foldl step (Bins.new 1)).lists.length ≤ 4 * m + 1 := by
  intro xs
  induction xs using Oracle.rev_induction with
  | nil =>
    intro _ _
    have : (Bins.new 1 : Bins α).lists = [[]] := rfl
    simp only [List.foldl_nil, this, List.length_cons, List.length_nil]
    omega
  | snoc P x ih =>
    intro hs hf
    obtain ⟨hs1, _, hs2⟩ := List.pairwise_append.1 hs
    have hfP : Packable B m (P.map v) := by
      rw [List.map_append] at hf; exact LPT43.packable_prefix _ hf
    have hall : ∀ a ∈ P, v a ≤ B := fun a ha => LPT43.packable_item_le hfP (List.mem_map_of_mem ha)
    have hinv : Fit.Inv v B P (P.foldl step (Bins.new 1)) := by
      simpa using Fit.inv_foldl step hstep P [] (Bins.new 1) hall (Fit.inv_init v B)
    have hts := tailSmall_foldl hstep hm (P ++ [x]) hs hf
    have ih' := ih hs1 hfP
    rw [List.foldl_append] at hts ⊢
    simp only [List.foldl_cons, List.foldl_nil] at hts ⊢
    generalize P.foldl step (Bins.new 1) = b at hinv hts ih' ⊢
    rcases hstep b x with ⟨i, hi, hfit, he⟩ | ⟨hno, he⟩
    · rw [he]
      simpa [Bins.add] using ih'
    · rw [he, Fit.addEmpty_add v b x hinv.len] at hts ⊢
      simpa using new_bin_count hm hinv (fun a ha => hs2 a ha x (by simp)) hf hno hts

/-- the generic loop -/
theorem gen_sorted_four_thirds {v : α → Nat} {B m : Nat} {step : Bins α → α → Bins α} {xs : List α}
    {b : Bins α} (hstep : ∀ b x, Fit.Step v B b x (step b x)) (hsorted : xs.Pairwise (fun a c => v c ≤ v a))
    (hne : xs ≠ []) (hok : Fit.genLoop v B step (Bins.new 1) xs = .ok b) (hm : Packable B m (xs.map v)) :
    3 * b.lists.length ≤ 4 * m + 1 := by
  have hm1 : 1 ≤ m := packable_pos hm (by simpa using hne)
  have hall := Fit.gen_ok_all_le hok
  rw [Fit.genLoop_ok v B step xs _ hall] at hok
  cases hok
  exact anyfit_sorted_four_thirds hstep hm1 xs hsorted hm

section main
variable {v : α → Nat} {B m : Nat} {items : List α} {b : Bins α}

/-- **best fit decreasing, ratio 4/3**: `BFD ≤ 4/3 · OPT + 1/3` -/
theorem bfd_partial_four_thirds (hne : items ≠ []) (hok : bfDecreasing v B items = .ok b)
    (hm : Packable B m (items.map v)) : 3 * b.lists.length ≤ 4 * m + 1 := by
  simp only [bfDecreasing, bfOnline, Fit.bfLoop_eq] at hok
  exact gen_sorted_four_thirds (Fit.bfStep_step v B) (Part.sortDesc_sorted v items) (sortDesc_ne_nil v hne) hok
    (FF17.packable_sortDesc hm)

theorem bfd_partial_four_thirds_all (hok : bfDecreasing v B items = .ok b) (hm : Packable B m (items.map v)) :
    3 * b.lists.length ≤ 4 * m + 3 := by
  by_cases hne : items = []
  · subst hne
    cases hok
    simp [Bins.new]
  · have := bfd_partial_four_thirds hne hok hm
    omega

end main


/-! ## 8. The two easy halves of Johnson's theorem

Let `a` be the first item of the last bin.  If `a > B/3` the packing is optimal (Lemma 1); if `a ≤ 2B/11`
all other bins are filled above `9B/11`, which gives `9·#bins ≤ 11·m + 8` by volume alone.  What is left open for
the bound `11/9` is the range `2B/11 < a ≤ B/3`. -/

/-- the any-fit property on the list of bins -/
theorem anyfit_pairwise_lists {v : α → Nat} {B : Nat} {seen : List α} {b : Bins α} (h : Fit.Inv v B seen b) :
    b.lists.Pairwise (fun L L' => ∃ x, L'.head? = some x ∧ B < binSum v L + v x) := by
  rw [List.pairwise_iff_getElem]
  intro i j hi hj hij
  have hsi : b.sums.getD i 0 = binSum v b.lists[i] := by
    rw [FF17.getD_sums (by rw [h.len]; exact hi)]; simp [h.cons]
  obtain ⟨x, hx, hlt⟩ := h.af i j hij hj
  rw [FF17.getD_lists hj] at hx
  exact ⟨x, hx, by rw [← hsi]; exact hlt⟩

/-- **volume**: all bins before the last one are filled above `B − a`, `a` the first item of the last bin -/
theorem inv_volume_of_last {v : α → Nat} {B m : Nat} {items : List α} {b : Bins α} (h : Fit.Inv v B items b)
    (hm : Packable B m (items.map v)) {x : α} {L : List α} (hlast : b.lists.getLast? = some (x :: L)) :
    (b.lists.length - 1) * (B - v x + 1) + v x ≤ m * B := by
  obtain ⟨Ls, hLs⟩ := List.getLast?_eq_some_iff.1 hlast
  have hp := anyfit_pairwise_lists h
  rw [hLs, List.pairwise_append] at hp
  obtain ⟨_, _, hPE⟩ := hp
  have hxB : v x ≤ B := by
    have hmem : binSum v (x :: L) ∈ b.sums := by
      rw [h.cons, hLs]; exact List.mem_map.2 ⟨x :: L, by simp, rfl⟩
    have := h.le _ hmem
    rw [Fit.binSum_cons] at this
    omega
  have h1 := length_mul_le (B - v x + 1) (Ls.map (binSum v)) (by
    intro s hs
    obtain ⟨L', hL', rfl⟩ := List.mem_map.1 hs
    obtain ⟨y, hy, hlt⟩ := hPE L' hL' (x :: L) (by simp)
    simp only [List.head?_cons, Option.some.injEq] at hy
    subst hy
    omega)
  rw [List.length_map, Fit.sumL_map_binSum] at h1
  have htot : binSum v b.lists.flatten ≤ m * B := by
    rw [Fit.binSum_perm h.perm]; exact LPT43.packable_sum hm
  rw [hLs, List.flatten_append, Fit.binSum_append] at htot
  simp only [List.flatten_cons, List.flatten_nil, List.append_nil, Fit.binSum_cons] at htot
  rw [hLs]
  simp only [List.length_append, List.length_cons, List.length_nil, Nat.add_sub_cancel]
  omega

theorem eleven_ninths_arith {k' m B a : Nat} (h : k' * (B - a + 1) + a ≤ m * B) (ha : 11 * a ≤ 2 * B)
    (hm : 1 ≤ m) : 9 * (k' + 1) ≤ 11 * m + 8 := by
  apply Nat.le_of_not_lt
  intro hlt
  have hc : 11 * m ≤ 9 * k' := by omega
  have h2 : 9 * B + 11 ≤ 11 * (B - a + 1) := by omega
  have h3 : k' * (9 * B + 11) ≤ k' * (11 * (B - a + 1)) := Nat.mul_le_mul_left _ h2
  have h4 : k' * (11 * (B - a + 1)) = 11 * (k' * (B - a + 1)) := Nat.mul_left_comm ..
  have h5 : k' * (9 * B + 11) = 9 * (k' * B) + 11 * k' := by
    rw [Nat.mul_add, Nat.mul_left_comm, Nat.mul_comm k' 11]
  have h6 : 11 * m * B ≤ 9 * k' * B := Nat.mul_le_mul_right B hc
  rw [Nat.mul_assoc, Nat.mul_assoc] at h6
  omega

section generic
variable {v : α → Nat} {B m : Nat} {step : Bins α → α → Bins α} {xs : List α} {b : Bins α}

/-- **any any-fit rule, easy half 1**: if the first item of the last bin is at most `2B/11`, then
    `9 · #bins ≤ 11 · m + 8` (no sortedness needed) -/
theorem gen_eleven_ninths_of_last_small (hstep : ∀ b x, Fit.Step v B b x (step b x)) (hne : xs ≠ [])
    (hok : Fit.genLoop v B step (Bins.new 1) xs = .ok b) (hm : Packable B m (xs.map v)) {x : α} {L : List α}
    (hlast : b.lists.getLast? = some (x :: L)) (hx : 11 * v x ≤ 2 * B) : 9 * b.lists.length ≤ 11 * m + 8 := by
  have hm1 : 1 ≤ m := packable_pos hm (by simpa using hne)
  have hinv := Fit.gen_inv hstep hok
  have h1 := inv_volume_of_last hinv hm hlast
  have hpos : 1 ≤ b.lists.length := by
    cases hb : b.lists with
    | nil => rw [hb] at hlast; simp at hlast
    | cons _ _ => simp
  have := eleven_ninths_arith h1 hx hm1
  omega

/-- **any any-fit rule on a sorted input, easy half 2**: if the first item of the last bin exceeds `B/3`, the
    packing is optimal -/
theorem gen_sorted_opt_of_last_big (hstep : ∀ b x, Fit.Step v B b x (step b x))
    (hsorted : xs.Pairwise (fun a c => v c ≤ v a)) (hne : xs ≠ [])
    (hok : Fit.genLoop v B step (Bins.new 1) xs = .ok b) (hm : Packable B m (xs.map v)) {x : α} {L : List α}
    (hlast : b.lists.getLast? = some (x :: L)) (hx : B < 3 * v x) : b.lists.length ≤ m := by
  have hm1 : 1 ≤ m := packable_pos hm (by simpa using hne)
  have hall := Fit.gen_ok_all_le hok
  rw [Fit.genLoop_ok v B step xs _ hall] at hok
  cases hok
  have hts := tailSmall_foldl hstep hm1 xs hsorted hm
  apply Nat.le_of_not_lt
  intro hlt
  generalize xs.foldl step (Bins.new 1) = b at hts hlast hlt
  rw [List.getLast?_eq_getElem?] at hlast
  have := hts (b.lists.length - 1) (by omega) x (by
    rw [List.getD_eq_getElem?_getD, hlast]; simp)
  omega

/-- every any-fit rule on a non-empty sorted input: the absolute bound `3/2` -/
theorem gen_sorted_three_halves (hstep : ∀ b x, Fit.Step v B b x (step b x))
    (hsorted : xs.Pairwise (fun a c => v c ≤ v a)) (hne : xs ≠ [])
    (hok : Fit.genLoop v B step (Bins.new 1) xs = .ok b) (hm : Packable B m (xs.map v)) :
    2 * b.lists.length ≤ 3 * m := by
  have hm1 : 1 ≤ m := packable_pos hm (by simpa using hne)
  have := gen_sorted_four_thirds hstep hsorted hne hok hm
  omega

end generic

/-! ## 9. Corollaries for the two algorithms -/

section main
variable {v : α → Nat} {B m : Nat} {items : List α} {b : Bins α}

/-- in the form of the checked property: `#bins ≤ ⌊(4·OPT + 1)/3⌋` -/
theorem ffd_floor (hne : items ≠ []) (hok : ffDecreasing v B items = .ok b) (hm : Packable B m (items.map v)) :
    b.lists.length ≤ (4 * m + 1) / 3 := by
  have := ffd_partial_four_thirds hne hok hm
  omega

theorem bfd_floor (hne : items ≠ []) (hok : bfDecreasing v B items = .ok b) (hm : Packable B m (items.map v)) :
    b.lists.length ≤ (4 * m + 1) / 3 := by
  have := bfd_partial_four_thirds hne hok hm
  omega

/-- **C09 exactly, for small optima**: Dósa's bound `FFD ≤ 11/9 · OPT + 6/9` holds whenever
    `OPT ∈ {1, 2, 3, 4, 6, 7}` (there `⌊(4·OPT + 1)/3⌋ = ⌊(11·OPT + 6)/9⌋`) -/
theorem ffd_eleven_ninths_of_opt_small (hne : items ≠ []) (hok : ffDecreasing v B items = .ok b)
    (hm : Packable B m (items.map v)) (hsmall : m ≤ 4 ∨ m = 6 ∨ m = 7) : 9 * b.lists.length ≤ 11 * m + 6 := by
  have := ffd_partial_four_thirds hne hok hm
  have hcases : m = 0 ∨ m = 1 ∨ m = 2 ∨ m = 3 ∨ m = 4 ∨ m = 6 ∨ m = 7 := by omega
  rcases hcases with rfl | rfl | rfl | rfl | rfl | rfl | rfl <;> omega

/-- **C09 exactly, for small optima**: `BFD ≤ 11/9 · OPT + 4` holds whenever `OPT ≤ 33`
    (the empty input included: one bin, `OPT = 0`) -/
theorem bfd_eleven_ninths_of_opt_small (hok : bfDecreasing v B items = .ok b)
    (hm : Packable B m (items.map v)) (hsmall : m ≤ 33) : 9 * b.lists.length ≤ 11 * m + 36 := by
  by_cases hne : items = []
  · subst hne
    cases hok
    simp [Bins.new]
  · have := bfd_partial_four_thirds hne hok hm
    omega

/-- first fit decreasing: if the first item of the last bin is at most `2B/11` then `FFD ≤ 11/9 · OPT + 8/9` -/
theorem ffd_eleven_ninths_of_last_small (hne : items ≠ []) (hok : ffDecreasing v B items = .ok b)
    (hm : Packable B m (items.map v)) {x : α} {L : List α} (hlast : b.lists.getLast? = some (x :: L))
    (hx : 11 * v x ≤ 2 * B) : 9 * b.lists.length ≤ 11 * m + 8 := by
  simp only [ffDecreasing, ffOnline, Fit.ffLoop_eq] at hok
  exact gen_eleven_ninths_of_last_small (Fit.ffStep_step v B) (sortDesc_ne_nil v hne) hok
    (FF17.packable_sortDesc hm) hlast hx

theorem bfd_eleven_ninths_of_last_small (hne : items ≠ []) (hok : bfDecreasing v B items = .ok b)
    (hm : Packable B m (items.map v)) {x : α} {L : List α} (hlast : b.lists.getLast? = some (x :: L))
    (hx : 11 * v x ≤ 2 * B) : 9 * b.lists.length ≤ 11 * m + 8 := by
  simp only [bfDecreasing, bfOnline, Fit.bfLoop_eq] at hok
  exact gen_eleven_ninths_of_last_small (Fit.bfStep_step v B) (sortDesc_ne_nil v hne) hok
    (FF17.packable_sortDesc hm) hlast hx

/-- first fit decreasing is optimal if the first item of the last bin exceeds `B/3`
    (in particular if all items exceed `B/3`) -/
theorem ffd_opt_of_last_big (hne : items ≠ []) (hok : ffDecreasing v B items = .ok b)
    (hm : Packable B m (items.map v)) {x : α} {L : List α} (hlast : b.lists.getLast? = some (x :: L))
    (hx : B < 3 * v x) : b.lists.length ≤ m := by
  simp only [ffDecreasing, ffOnline, Fit.ffLoop_eq] at hok
  exact gen_sorted_opt_of_last_big (Fit.ffStep_step v B) (Part.sortDesc_sorted v items) (sortDesc_ne_nil v hne)
    hok (FF17.packable_sortDesc hm) hlast hx

theorem bfd_opt_of_last_big (hne : items ≠ []) (hok : bfDecreasing v B items = .ok b)
    (hm : Packable B m (items.map v)) {x : α} {L : List α} (hlast : b.lists.getLast? = some (x :: L))
    (hx : B < 3 * v x) : b.lists.length ≤ m := by
  simp only [bfDecreasing, bfOnline, Fit.bfLoop_eq] at hok
  exact gen_sorted_opt_of_last_big (Fit.bfStep_step v B) (Part.sortDesc_sorted v items) (sortDesc_ne_nil v hne)
    hok (FF17.packable_sortDesc hm) hlast hx

/-! ### against the oracle `optBins` -/

theorem ffd_ok_all_le (hok : ffDecreasing v B items = .ok b) : ∀ x ∈ items.map v, x ≤ B := by
  intro a ha
  exact FF17.ok_all_le_ff hok a (((Part.sortDesc_perm v items).map v).mem_iff.2 ha)

theorem bfd_ok_all_le (hok : bfDecreasing v B items = .ok b) : ∀ x ∈ items.map v, x ≤ B := by
  intro a ha
  exact FF17.ok_all_le_bf hok a (((Part.sortDesc_perm v items).map v).mem_iff.2 ha)

/-- a successful run of first fit decreasing on a non-empty input: the oracle has an answer `m`, and
    `FFD ≤ 3/2 · m`, `FFD ≤ (4·m + 1)/3` -/
theorem ffd_opt (hne : items ≠ []) (hok : ffDecreasing v B items = .ok b) :
    ∃ m, optBins B (items.map v) = some m ∧ 2 * b.lists.length ≤ 3 * m ∧ 3 * b.lists.length ≤ 4 * m + 1 := by
  obtain ⟨m, h1, h2, _⟩ := Checkers.optBins_spec (ffd_ok_all_le hok)
  exact ⟨m, h1, ffd_three_halves hne hok h2, ffd_partial_four_thirds hne hok h2⟩

theorem bfd_opt (hne : items ≠ []) (hok : bfDecreasing v B items = .ok b) :
    ∃ m, optBins B (items.map v) = some m ∧ 2 * b.lists.length ≤ 3 * m ∧ 3 * b.lists.length ≤ 4 * m + 1 := by
  obtain ⟨m, h1, h2, _⟩ := Checkers.optBins_spec (bfd_ok_all_le hok)
  exact ⟨m, h1, bfd_three_halves hne hok h2, bfd_partial_four_thirds hne hok h2⟩

end main

/-! ## 10. Non-vacuity -/

/-- `[4, 4, 3, 3, 3, 3]` with `B = 10`: the optimum is two bins `4 + 3 + 3` -/
theorem ex_packable : Packable 10 2 (([3, 4, 3, 4, 3, 3] : List Nat).map id) :=
  ⟨[0, 0, 0, 1, 1, 1], ⟨rfl, by decide⟩, by decide⟩

/-- first fit decreasing and best fit decreasing need three bins -/
theorem ex_ffd : ffDecreasing id 10 [3, 4, 3, 4, 3, 3] = .ok ⟨[8, 9, 3], [[4, 4], [3, 3, 3], [3]]⟩ := rfl
theorem ex_bfd : bfDecreasing id 10 [3, 4, 3, 4, 3, 3] = .ok ⟨[8, 9, 3], [[4, 4], [3, 3, 3], [3]]⟩ := rfl

/-- both bounds are attained: `2 · 3 = 3 · 2` and `3 · 3 = 4 · 2 + 1` -/
example : 2 * 3 ≤ 3 * 2 := ffd_three_halves (by decide) ex_ffd ex_packable
example : 2 * 3 ≤ 3 * 2 := bfd_three_halves (by decide) ex_bfd ex_packable
example : 2 * 3 ≤ 3 * 2 + 2 := ffd_three_halves_all ex_ffd ex_packable
example : 3 * 3 ≤ 4 * 2 + 1 := ffd_partial_four_thirds (by decide) ex_ffd ex_packable
example : 3 * 3 ≤ 4 * 2 + 1 := bfd_partial_four_thirds (by decide) ex_bfd ex_packable
example : 3 ≤ (4 * 2 + 1) / 3 := ffd_floor (by decide) ex_ffd ex_packable
example : 9 * 3 ≤ 11 * 2 + 6 := ffd_eleven_ninths_of_opt_small (by decide) ex_ffd ex_packable (by decide)
example : 9 * 3 ≤ 11 * 2 + 36 := bfd_eleven_ninths_of_opt_small ex_bfd ex_packable (by decide)
example : ∃ m, optBins 10 (([3, 4, 3, 4, 3, 3] : List Nat).map id) = some m ∧ 2 * 3 ≤ 3 * m ∧ 3 * 3 ≤ 4 * m + 1 :=
  ffd_opt (by decide) ex_ffd

/-- Lemma 1 on this run: the third bin (beyond the first `m = 2`) holds only items `≤ 10/3` -/
example : TailSmall id 10 2 (([4, 4, 3, 3, 3, 3] : List Nat).foldl (ffStep id 10) (Bins.new 1)) :=
  tailSmall_foldl (Fit.ffStep_step id 10) (by decide) [4, 4, 3, 3, 3, 3] (by decide)
    ⟨[0, 1, 0, 0, 1, 1], ⟨rfl, by decide⟩, by decide⟩

/-- the first-fit property of the run -/
example : AllFit id 10 (⟨[8, 9, 3], [[4, 4], [3, 3, 3], [3]]⟩ : Bins Nat) :=
  ffOnline_allfit (items := [4, 4, 3, 3, 3, 3]) rfl

/-- the last bin starts with `3 ≤ 10/3`, so optimality is not claimed; with `B = 8` and `[5, 4, 3, 3]` it is -/
example : 2 ≤ 2 :=
  ffd_opt_of_last_big (v := id) (B := 8) (items := [3, 5, 4, 3]) (b := ⟨[8, 7], [[5, 3], [4, 3]]⟩) (m := 2)
    (by decide) rfl ⟨[0, 0, 1, 1], ⟨rfl, by decide⟩, by decide⟩ (x := 4) (L := [3]) rfl (by decide)

/-- Johnson's family (scaled to `B = 100`): six bins `51 + 26 + 23` and three bins `27 + 27 + 23 + 23` -/
def johnson : List Nat :=
  [51, 26, 23, 51, 26, 23, 51, 26, 23, 51, 26, 23, 51, 26, 23, 51, 26, 23,
   27, 27, 23, 23, 27, 27, 23, 23, 27, 27, 23, 23]

theorem johnson_packable : Packable 100 9 (johnson.map id) :=
  ⟨[0, 0, 0, 1, 1, 1, 2, 2, 2, 3, 3, 3, 4, 4, 4, 5, 5, 5, 6, 6, 6, 6, 7, 7, 7, 7, 8, 8, 8, 8],
    ⟨rfl, by decide⟩, by decide⟩

/-- first fit decreasing needs eleven bins: `11 = 11/9 · 9` -/
theorem johnson_ffd : ∃ b, ffDecreasing id 100 johnson = .ok b ∧ b.lists.length = 11 := by
  have h : (ffDecreasing id 100 johnson).toOption.map (fun b => b.lists.length) = some 11 := by decide
  cases hb : ffDecreasing id 100 johnson with
  | error e => rw [hb] at h; simp [Except.toOption] at h
  | ok b => rw [hb] at h; exact ⟨b, rfl, by simpa [Except.toOption] using h⟩

example : 3 * 11 ≤ 4 * 9 + 1 := by
  obtain ⟨b, hb, hl⟩ := johnson_ffd
  have := ffd_partial_four_thirds (by decide) hb johnson_packable
  omega

/-- the volume half does not apply to Johnson's family (`11 · 23 > 2 · 100`); it does apply here:
    `B = 100`, the last bin starts with `18 ≤ 200/11` -/
example : 9 * 2 ≤ 11 * 2 + 8 :=
  ffd_eleven_ninths_of_last_small (v := id) (B := 100) (items := [18, 18, 90, 18]) (m := 2)
    (b := ⟨[90, 54], [[90], [18, 18, 18]]⟩) (by decide) rfl ⟨[0, 0, 1, 0], ⟨rfl, by decide⟩, by decide⟩
    (x := 18) (L := [18, 18]) rfl (by decide)

/-- without `items ≠ []` the absolute bounds are false for the model: the empty list is packed into one
    (empty) bin, while it is `Packable` into `0` bins -/
example : ffDecreasing id 10 ([] : List Nat) = .ok ⟨[0], [[]]⟩ := rfl
example : Packable 10 0 (([] : List Nat).map id) := ⟨[], ⟨rfl, by simp⟩, by simp [sumsOf]⟩
example : ¬ (2 * (⟨[0], [[]]⟩ : Bins Nat).lists.length ≤ 3 * 0) := by decide

end Prtpy.FFD

/-
Axiom audit (`#print axioms`, observed with Lean 4.33.0):

#print axioms Prtpy.FFD.tailSmall_foldl                    -- [propext, Classical.choice, Quot.sound]
#print axioms Prtpy.FFD.ffd_three_halves                   -- [propext, Classical.choice, Quot.sound]
#print axioms Prtpy.FFD.bfd_three_halves                   -- [propext, Classical.choice, Quot.sound]
#print axioms Prtpy.FFD.ffd_three_halves_all               -- [propext, Classical.choice, Quot.sound]
#print axioms Prtpy.FFD.bfd_three_halves_all               -- [propext, Classical.choice, Quot.sound]
#print axioms Prtpy.FFD.ffd_partial_four_thirds            -- [propext, Classical.choice, Quot.sound]
#print axioms Prtpy.FFD.ffd_partial_four_thirds_all        -- [propext, Classical.choice, Quot.sound]
#print axioms Prtpy.FFD.bfd_partial_four_thirds            -- [propext, Classical.choice, Quot.sound]
#print axioms Prtpy.FFD.bfd_partial_four_thirds_all        -- [propext, Classical.choice, Quot.sound]
#print axioms Prtpy.FFD.anyfit_sorted_four_thirds          -- [propext, Classical.choice, Quot.sound]
#print axioms Prtpy.FFD.gen_sorted_four_thirds             -- [propext, Classical.choice, Quot.sound]
#print axioms Prtpy.FFD.gen_sorted_three_halves            -- [propext, Classical.choice, Quot.sound]
#print axioms Prtpy.FFD.gen_three_halves                   -- [propext, Classical.choice, Quot.sound]
#print axioms Prtpy.FFD.ffd_floor                          -- [propext, Classical.choice, Quot.sound]
#print axioms Prtpy.FFD.bfd_floor                          -- [propext, Classical.choice, Quot.sound]
#print axioms Prtpy.FFD.ffd_eleven_ninths_of_opt_small     -- [propext, Classical.choice, Quot.sound]
#print axioms Prtpy.FFD.bfd_eleven_ninths_of_opt_small     -- [propext, Classical.choice, Quot.sound]
#print axioms Prtpy.FFD.ffd_eleven_ninths_of_last_small    -- [propext, Classical.choice, Quot.sound]
#print axioms Prtpy.FFD.bfd_eleven_ninths_of_last_small    -- [propext, Classical.choice, Quot.sound]
#print axioms Prtpy.FFD.ffd_opt_of_last_big                -- [propext, Classical.choice, Quot.sound]
#print axioms Prtpy.FFD.bfd_opt_of_last_big                -- [propext, Classical.choice, Quot.sound]
#print axioms Prtpy.FFD.ffd_opt                            -- [propext, Classical.choice, Quot.sound]
#print axioms Prtpy.FFD.bfd_opt                            -- [propext, Classical.choice, Quot.sound]
-/
