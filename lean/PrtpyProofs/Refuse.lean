/-
  PrtpyProofs.Refuse — property C19: unsatisfiable or malformed requests are refused with an error,
  never answered.
    A1  `cbldm`'s argument validation (`cbldmValidate`)
    A2  the sums-only manager refuses to count items (`numitems`)
    A3  the five packers refuse an oversize item, wherever it is, however often, whatever the item format
-/
import Prtpy
import PrtpyProofs.Fit
import PrtpyProofs.BCProofs
import PrtpyProofs.Natural

namespace Prtpy.Refuse

/-! ### A1. `cbldmValidate` -/

theorem minInt_cons_cons (x y : Int) (l : List Int) : minInt (x :: y :: l) = min x (minInt (y :: l)) := rfl

/-- the smallest element of a non-empty list is negative iff some element is -/
theorem minInt_neg_iff : ∀ {l : List Int}, l ≠ [] → (minInt l < 0 ↔ ∃ x ∈ l, x < 0)
  | [], h => absurd rfl h
  | [x], _ => by simp [minInt]
  | x :: y :: l, _ => by
    have ih := minInt_neg_iff (l := y :: l) (by simp)
    have hmin : min x (minInt (y :: l)) < 0 ↔ (x < 0 ∨ minInt (y :: l) < 0) := by omega
    rw [minInt_cons_cons, hmin, ih]
    constructor
    · rintro (h | ⟨z, hz, hlt⟩)
      · exact ⟨x, List.mem_cons_self, h⟩
      · exact ⟨z, List.mem_cons_of_mem _ hz, hlt⟩
    · rintro ⟨z, hz, hlt⟩
      rcases List.mem_cons.1 hz with rfl | hz
      · exact Or.inl hlt
      · exact Or.inr ⟨z, hz, hlt⟩

theorem pdBad_iff (p : PDiff) : p.bad = true ↔ (match p with | .int i => i < 1 | .nonInt _ => True) := by
  cases p <;> simp [PDiff.bad]

/-- the four ways in which a request with at least one item is malformed -/
def Malformed (a : CbArgs) : Prop :=
  a.numbins ≠ 2 ∨ a.timeLimitPositive = false ∨ (match a.pd with | .int i => i < 1 | .nonInt _ => True) ∨
    ∃ x ∈ a.items, x < 0

/-- case analysis of `cbldmValidate` on a non-empty item list -/
theorem cbldmValidate_cases {a : CbArgs} (hne : a.items ≠ []) :
    (Malformed a ∧ cbldmValidate a = .error .valueError) ∨ (¬ Malformed a ∧ cbldmValidate a = .ok ()) := by
  have hemp : a.items.isEmpty = false := by
    cases h : a.items with
    | nil => exact absurd h hne
    | cons _ _ => rfl
  unfold cbldmValidate Malformed
  by_cases h1 : a.numbins ≠ 2
  · exact Or.inl ⟨Or.inl h1, by rw [if_pos h1]⟩
  rw [if_neg h1]
  by_cases h2 : a.timeLimitPositive = false
  · exact Or.inl ⟨Or.inr (Or.inl h2), by simp [h2]⟩
  have h2' : a.timeLimitPositive = true := by simpa using h2
  by_cases h3 : a.pd.bad = true
  · exact Or.inl ⟨Or.inr (Or.inr (Or.inl ((pdBad_iff _).1 h3))), by simp [h2', h3]⟩
  have h3' : a.pd.bad = false := by simpa using h3
  by_cases h4 : minInt a.items < 0
  · exact Or.inl ⟨Or.inr (Or.inr (Or.inr ((minInt_neg_iff hne).1 h4))), by simp [h2', h3', hemp, h4]⟩
  · refine Or.inr ⟨?_, by simp [h2', h3', hemp, h4]⟩
    rintro (h | h | h | h)
    · exact h1 h
    · exact h2 h
    · exact h3 ((pdBad_iff _).2 h)
    · exact h4 ((minInt_neg_iff hne).2 h)

/-- **A1**: with at least one item, `cbldm` raises `ValueError` iff the number of bins is not 2, or the time limit
    is not positive, or `partition_difference` is not an `int ≥ 1`, or some item is negative -/
theorem cbldmValidate_iff {a : CbArgs} (hne : a.items ≠ []) :
    (cbldmValidate a = .error .valueError ↔
      (a.numbins ≠ 2 ∨ a.timeLimitPositive = false ∨ (match a.pd with | .int i => i < 1 | .nonInt _ => True) ∨
        ∃ x ∈ a.items, x < 0)) ∧
    (cbldmValidate a = .ok () ↔
      ¬ (a.numbins ≠ 2 ∨ a.timeLimitPositive = false ∨ (match a.pd with | .int i => i < 1 | .nonInt _ => True) ∨
        ∃ x ∈ a.items, x < 0)) := by
  rcases cbldmValidate_cases hne with ⟨hm, hv⟩ | ⟨hm, hv⟩
  · refine ⟨⟨fun _ => hm, fun _ => hv⟩, ⟨fun h => ?_, fun h => absurd hm h⟩⟩
    rw [hv] at h; cases h
  · refine ⟨⟨fun h => ?_, fun h => absurd h hm⟩, ⟨fun _ => hm, fun _ => hv⟩⟩
    rw [hv] at h; cases h

example : cbldmValidate ⟨2, true, .int 1, [4, 0, 7]⟩ = .ok () :=
  (cbldmValidate_iff (a := ⟨2, true, .int 1, [4, 0, 7]⟩) (by simp)).2.2 (by decide)
example : cbldmValidate ⟨2, true, .int 3, [4, -1, 7]⟩ = .error .valueError :=
  (cbldmValidate_iff (a := ⟨2, true, .int 3, [4, -1, 7]⟩) (by simp)).1.2 (by decide)

/-- **A1**: each invalid argument alone — whatever the other arguments are — is refused with `ValueError`
    (the item list being non-empty) -/
theorem cbldmValidate_single {a : CbArgs} (hne : a.items ≠ []) :
    (a.numbins ≠ 2 → cbldmValidate a = .error .valueError) ∧
    (a.timeLimitPositive = false → cbldmValidate a = .error .valueError) ∧
    ((∃ i, a.pd = .int i ∧ i < 1) → cbldmValidate a = .error .valueError) ∧
    ((∃ f, a.pd = .nonInt f) → cbldmValidate a = .error .valueError) ∧
    ((∃ x ∈ a.items, x < 0) → cbldmValidate a = .error .valueError) := by
  have H := (cbldmValidate_iff hne).1
  refine ⟨fun h => H.2 (Or.inl h), fun h => H.2 (Or.inr (Or.inl h)), ?_, ?_,
    fun h => H.2 (Or.inr (Or.inr (Or.inr h)))⟩
  · rintro ⟨i, hi, hlt⟩
    exact H.2 (Or.inr (Or.inr (Or.inl (by rw [hi]; exact hlt))))
  · rintro ⟨f, hf⟩
    exact H.2 (Or.inr (Or.inr (Or.inl (by rw [hf]; trivial))))

/-- the first three checks do not even need a non-empty item list -/
theorem cbldmValidate_single_args (a : CbArgs)
    (h : a.numbins ≠ 2 ∨ a.timeLimitPositive = false ∨ a.pd.bad = true) :
    cbldmValidate a = .error .valueError := by
  unfold cbldmValidate
  by_cases h1 : a.numbins ≠ 2
  · rw [if_pos h1]
  rw [if_neg h1]
  by_cases h2 : a.timeLimitPositive = false
  · simp [h2]
  have h2' : a.timeLimitPositive = true := by simpa using h2
  rcases h with h | h | h
  · exact absurd h h1
  · exact absurd h h2
  · simp [h2', h]

-- only one argument wrong at a time, all others valid
example : cbldmValidate ⟨3, true, .int 1, [4, 5]⟩ = .error .valueError :=
  (cbldmValidate_single (a := ⟨3, true, .int 1, [4, 5]⟩) (by simp)).1 (by decide)
example : cbldmValidate ⟨2, false, .int 1, [4, 5]⟩ = .error .valueError :=
  (cbldmValidate_single (a := ⟨2, false, .int 1, [4, 5]⟩) (by simp)).2.1 rfl
example : cbldmValidate ⟨2, true, .int 0, [4, 5]⟩ = .error .valueError :=
  (cbldmValidate_single (a := ⟨2, true, .int 0, [4, 5]⟩) (by simp)).2.2.1 ⟨0, rfl, by decide⟩
example : cbldmValidate ⟨2, true, .nonInt false, [4, 5]⟩ = .error .valueError :=
  (cbldmValidate_single (a := ⟨2, true, .nonInt false, [4, 5]⟩) (by simp)).2.2.2.1 ⟨false, rfl⟩
example : cbldmValidate ⟨2, true, .int 1, [4, 5, -2]⟩ = .error .valueError :=
  (cbldmValidate_single (a := ⟨2, true, .int 1, [4, 5, -2]⟩) (by simp)).2.2.2.2 ⟨-2, by simp, by decide⟩
example : cbldmValidate ⟨7, true, .int 1, []⟩ = .error .valueError :=
  cbldmValidate_single_args _ (Or.inl (by decide))

/-- **A1**: with at least one item the only error `cbldm`'s validation can raise is `ValueError` -/
theorem cbldmValidate_never_other {a : CbArgs} (hne : a.items ≠ []) {e : Err}
    (h : cbldmValidate a = .error e) : e = .valueError := by
  rcases cbldmValidate_cases hne with ⟨_, hv⟩ | ⟨_, hv⟩
  · rw [hv] at h; cases h; rfl
  · rw [hv] at h; cases h

example : (.valueError : Err) = .valueError :=
  cbldmValidate_never_other (a := ⟨2, true, .nonInt true, [1]⟩) (by simp) rfl

/-- without the hypothesis the statement is false: an otherwise valid request with no item dies with `IndexError` -/
example : cbldmValidate ⟨2, true, .int 1, []⟩ = .error .indexError := rfl

/-- in general: the error is `ValueError`, or `IndexError` and then exactly for the empty list with valid arguments -/
theorem cbldmValidate_error_kind {a : CbArgs} {e : Err} (h : cbldmValidate a = .error e) :
    e = .valueError ∨ (e = .indexError ∧ a.items = [] ∧ a.numbins = 2 ∧ a.timeLimitPositive = true ∧
      a.pd.bad = false) := by
  by_cases hne : a.items = []
  · by_cases hb : a.numbins ≠ 2 ∨ a.timeLimitPositive = false ∨ a.pd.bad = true
    · rw [cbldmValidate_single_args a hb] at h; cases h; exact Or.inl rfl
    · have h1 : a.numbins = 2 := by
        apply Classical.byContradiction; intro hc; exact hb (Or.inl hc)
      have h2 : a.timeLimitPositive = true := by
        cases ht : a.timeLimitPositive with
        | true => rfl
        | false => exact absurd (Or.inr (Or.inl ht)) hb
      have h3 : a.pd.bad = false := by
        cases ht : a.pd.bad with
        | false => rfl
        | true => exact absurd (Or.inr (Or.inr ht)) hb
      simp [cbldmValidate, h1, h2, h3, hne] at h
      exact Or.inr ⟨h.symm, hne, h1, h2, h3⟩
  · exact Or.inl (cbldmValidate_never_other hne h)

/-! ### A2. `numitems` -/

/-- **A2**: the sums-only manager refuses to count the items of a bin, whatever the bins and the index -/
theorem sums_numitems_refuses {α : Type} (lists : List (List α)) (i : Nat) :
    numitems false lists i = .error .notImplemented := rfl

example : numitems false [[1, 2], [3]] 1 = .error .notImplemented := sums_numitems_refuses _ _

/-- **A2**: the contents manager answers with the length of the bin -/
theorem contents_numitems {α : Type} {lists : List (List α)} {i : Nat} (h : i < lists.length) :
    numitems true lists i = .ok lists[i].length := by
  simp [numitems, List.getElem?_eq_getElem h]

example : numitems true [[1, 2], [3]] 0 = .ok 2 := contents_numitems (by decide)

/-- and an index out of range is refused as well -/
theorem contents_numitems_out_of_range {α : Type} {lists : List (List α)} {i : Nat} (h : lists.length ≤ i) :
    numitems true lists i = .error .indexError := by
  simp [numitems, List.getElem?_eq_none h]

example : numitems true [[1, 2], [3]] 2 = .error .indexError := contents_numitems_out_of_range (by decide)

/-! ### A3. the packers -/

/-- the four fit heuristics -/
inductive Packer where
  | ffOnline | ffDecreasing | bfOnline | bfDecreasing
  deriving Repr, DecidableEq

def Packer.run {α : Type} (p : Packer) (v : α → Nat) (B : Nat) (items : List α) : Except Err (Bins α) :=
  match p with
  | .ffOnline => Prtpy.ffOnline v B items
  | .ffDecreasing => Prtpy.ffDecreasing v B items
  | .bfOnline => Prtpy.bfOnline v B items
  | .bfDecreasing => Prtpy.bfDecreasing v B items

theorem Packer.error_iff {α : Type} (p : Packer) (v : α → Nat) (B : Nat) (items : List α) :
    (∃ e, p.run v B items = .error e) ↔ ∃ x ∈ items, B < v x := by
  cases p
  · exact Fit.ffOnline_error_iff
  · exact Fit.ffDecreasing_error_iff
  · exact Fit.bfOnline_error_iff
  · exact Fit.bfDecreasing_error_iff

theorem Packer.error_kind {α : Type} (p : Packer) {v : α → Nat} {B : Nat} {items : List α} {e : Err}
    (h : p.run v B items = .error e) : e = .valueError := by
  cases p
  · exact Fit.ffOnline_error_kind h
  · exact Fit.ffDecreasing_error_kind h
  · exact Fit.bfOnline_error_kind h
  · exact Fit.bfDecreasing_error_kind h

/-- the exact form: the result *is* `ValueError` iff some item exceeds the bin size -/
theorem Packer.valueError_iff {α : Type} (p : Packer) (v : α → Nat) (B : Nat) (items : List α) :
    p.run v B items = .error .valueError ↔ ∃ x ∈ items, B < v x := by
  constructor
  · intro h; exact (p.error_iff v B items).1 ⟨_, h⟩
  · intro h
    obtain ⟨e, he⟩ := (p.error_iff v B items).2 h
    rw [he, p.error_kind he]

/-- … and it is an answer iff every item fits -/
theorem Packer.ok_iff {α : Type} (p : Packer) (v : α → Nat) (B : Nat) (items : List α) :
    (∃ b, p.run v B items = .ok b) ↔ ∀ x ∈ items, v x ≤ B := by
  constructor
  · rintro ⟨b, hb⟩ x hx
    apply Nat.le_of_not_lt
    intro hlt
    have := (p.valueError_iff v B items).2 ⟨x, hx, hlt⟩
    rw [hb] at this; cases this
  · intro h
    cases hr : p.run v B items with
    | ok b => exact ⟨b, rfl⟩
    | error e =>
      obtain ⟨x, hx, hlt⟩ := (p.error_iff v B items).1 ⟨e, hr⟩
      exact absurd (h x hx) (by omega)

theorem bc_valueError_iff (B : Nat) (items : List Nat) (fuel : Nat) :
    BC.binCompletion B items fuel = .error .valueError ↔ ∃ x ∈ items, B < x := by
  rw [BCProofs.bc_error_iff]
  exact ⟨fun h => h.2, fun h => ⟨rfl, h⟩⟩

/-- **A3**: the five packers.  For first fit / best fit, online / decreasing, on any item type and value function,
    and for bin completion on numbers: the result is an error iff some item exceeds the bin size; the error is then
    `ValueError` and nothing else. -/
theorem packing_refuses :
    (∀ (p : Packer) {α : Type} (v : α → Nat) (B : Nat) (items : List α),
      ((∃ e, p.run v B items = .error e) ↔ ∃ x ∈ items, B < v x) ∧
      (p.run v B items = .error .valueError ↔ ∃ x ∈ items, B < v x) ∧
      (∀ e, p.run v B items = .error e → e = .valueError)) ∧
    (∀ (B : Nat) (items : List Nat) (fuel : Nat),
      ((∃ e, BC.binCompletion B items fuel = .error e) ↔ ∃ x ∈ items, B < x) ∧
      (BC.binCompletion B items fuel = .error .valueError ↔ ∃ x ∈ items, B < x) ∧
      (∀ e, BC.binCompletion B items fuel = .error e → e = .valueError)) := by
  refine ⟨fun p α v B items => ⟨p.error_iff v B items, p.valueError_iff v B items, fun e h => p.error_kind h⟩,
    fun B items fuel => ⟨⟨?_, fun h => ⟨_, (bc_valueError_iff B items fuel).2 h⟩⟩, bc_valueError_iff B items fuel,
      fun e h => (BCProofs.bc_error_iff.1 h).1⟩⟩
  rintro ⟨e, he⟩
  exact (BCProofs.bc_error_iff.1 he).2

example : Packer.bfDecreasing.run Prod.fst 10 [(3, 'a'), (11, 'b'), (2, 'c')] = .error .valueError :=
  ((packing_refuses.1 .bfDecreasing Prod.fst 10 _).2.1).2 ⟨(11, 'b'), by simp, by decide⟩
example : ∃ x ∈ [3, 11, 2], 10 < x :=
  ((packing_refuses.2 10 [3, 11, 2] 50).2.1).1 rfl
example : ¬ ∃ e, Packer.ffOnline.run id 10 [3, 10, 2] = .error e := by
  rw [(packing_refuses.1 .ffOnline id 10 [3, 10, 2]).1]; decide

/-- **A3**, position and multiplicity independence: one oversize item suffices, wherever it stands in the input
    and whatever surrounds it (including further copies of itself) -/
theorem packing_refuses_anywhere {α : Type} (p : Packer) (v : α → Nat) (B : Nat) (x : α) (hx : B < v x)
    (pre post : List α) : p.run v B (pre ++ [x] ++ post) = .error .valueError :=
  (p.valueError_iff v B _).2 ⟨x, by simp, hx⟩

theorem bc_refuses_anywhere (B : Nat) (x : Nat) (hx : B < x) (pre post : List Nat) (fuel : Nat) :
    BC.binCompletion B (pre ++ [x] ++ post) fuel = .error .valueError :=
  (bc_valueError_iff B _ fuel).2 ⟨x, by simp, hx⟩

/-- any number `n ≥ 1` of copies, spread over the input -/
theorem packing_refuses_copies {α : Type} (p : Packer) (v : α → Nat) (B : Nat) (x : α) (hx : B < v x)
    (n : Nat) (l₁ l₂ l₃ : List α) :
    p.run v B (l₁ ++ x :: l₂ ++ List.replicate n x ++ l₃) = .error .valueError :=
  (p.valueError_iff v B _).2 ⟨x, by simp, hx⟩

/-- refusal does not depend on the order of the input at all -/
theorem packing_refuses_perm {α : Type} (p q : Packer) (v : α → Nat) (B : Nat) {l₁ l₂ : List α}
    (h : l₁.Perm l₂) : p.run v B l₁ = .error .valueError ↔ q.run v B l₂ = .error .valueError := by
  rw [p.valueError_iff, q.valueError_iff]
  exact ⟨fun ⟨x, hx, hlt⟩ => ⟨x, h.mem_iff.1 hx, hlt⟩, fun ⟨x, hx, hlt⟩ => ⟨x, h.mem_iff.2 hx, hlt⟩⟩

example : Packer.ffOnline.run id 10 ([3, 4] ++ [12] ++ [5, 12, 1]) = .error .valueError :=
  packing_refuses_anywhere .ffOnline id 10 12 (by decide) [3, 4] [5, 12, 1]
example : Packer.bfOnline.run id 10 ([] ++ [12] ++ []) = .error .valueError :=
  packing_refuses_anywhere .bfOnline id 10 12 (by decide) [] []
example : BC.binCompletion 10 ([3, 4, 5, 1] ++ [12] ++ []) 100 = .error .valueError :=
  bc_refuses_anywhere 10 12 (by decide) _ _ _

/-- naturality of the four heuristics in the item format, collected -/
theorem Packer.natural {α β : Type} (p : Packer) (f : α → β) (vα : α → Nat) (vβ : β → Nat)
    (hf : ∀ a, vβ (f a) = vα a) (B : Nat) (items : List α) :
    p.run vβ B (items.map f) = (p.run vα B items).map (Bins.mapItems f) := by
  cases p
  · exact Natural.ffOnline_natural f vα vβ hf B items
  · exact Natural.ffDecreasing_natural f vα vβ hf B items
  · exact Natural.bfOnline_natural f vα vβ hf B items
  · exact Natural.bfDecreasing_natural f vα vβ hf B items

/-- **A3**, format independence: re-labelling the items (`f`, e.g. attaching names, with `vβ (f a) = vα a`) changes
    neither whether the request is refused nor the error: the two runs are related by `Except.map`, so one is
    `.error e` iff the other is. -/
theorem packing_refuses_format {α β : Type} (p : Packer) (f : α → β) (vα : α → Nat) (vβ : β → Nat)
    (hf : ∀ a, vβ (f a) = vα a) (B : Nat) (items : List α) :
    (∀ e, p.run vβ B (items.map f) = .error e ↔ p.run vα B items = .error e) ∧
    (p.run vβ B (items.map f) = .error .valueError ↔ ∃ a ∈ items, B < vα a) := by
  have hn := p.natural f vα vβ hf B items
  have h1 : ∀ e, p.run vβ B (items.map f) = .error e ↔ p.run vα B items = .error e := by
    intro e
    rw [hn]
    cases p.run vα B items with
    | ok b => exact ⟨fun h => (by cases h), fun h => (by cases h)⟩
    | error e' => exact ⟨fun h => (by cases h; rfl), fun h => (by cases h; rfl)⟩
  exact ⟨h1, (h1 _).trans (p.valueError_iff vα B items)⟩

/-- the same request given as bare numbers or as named items is refused alike -/
theorem packing_refuses_named {α : Type} (p : Packer) (v : α → Nat) (B : Nat) (items : List α) :
    p.run id B (items.map v) = .error .valueError ↔ p.run v B items = .error .valueError :=
  (packing_refuses_format p v v id (fun _ => rfl) B items).1 _

example : Packer.ffDecreasing.run Prod.fst 10 ([(3, "a"), (11, "b")]) = .error .valueError :=
  (packing_refuses_named .ffDecreasing Prod.fst 10 [(3, "a"), (11, "b")]).1 rfl
example : Packer.bfOnline.run (fun p : String × Nat => p.2) 10 ([5, 12, 1].map fun n => ("item", n))
    = .error .valueError :=
  (packing_refuses_format .bfOnline (fun n => ("item", n)) id _ (fun _ => rfl) 10 [5, 12, 1]).2.2
    ⟨12, by simp, by decide⟩

/-
Axiom audit (output of `#print axioms` observed for every main theorem):

'Prtpy.Refuse.cbldmValidate_iff' depends on axioms: [propext, Classical.choice, Quot.sound]
'Prtpy.Refuse.cbldmValidate_single' depends on axioms: [propext, Classical.choice, Quot.sound]
'Prtpy.Refuse.cbldmValidate_never_other' depends on axioms: [propext, Classical.choice, Quot.sound]
'Prtpy.Refuse.cbldmValidate_error_kind' depends on axioms: [propext, Classical.choice, Quot.sound]
'Prtpy.Refuse.sums_numitems_refuses' depends on axioms: [propext]
'Prtpy.Refuse.contents_numitems' depends on axioms: [propext]
'Prtpy.Refuse.packing_refuses' depends on axioms: [propext, Classical.choice, Quot.sound]
'Prtpy.Refuse.packing_refuses_anywhere' depends on axioms: [propext, Quot.sound]
'Prtpy.Refuse.bc_refuses_anywhere' depends on axioms: [propext, Classical.choice, Quot.sound]
'Prtpy.Refuse.packing_refuses_copies' depends on axioms: [propext, Quot.sound]
'Prtpy.Refuse.packing_refuses_perm' depends on axioms: [propext, Quot.sound]
'Prtpy.Refuse.packing_refuses_format' depends on axioms: [propext, Quot.sound]
'Prtpy.Refuse.packing_refuses_named' depends on axioms: [propext, Quot.sound]
-/

end Prtpy.Refuse
