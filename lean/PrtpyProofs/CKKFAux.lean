/-
  PrtpyProofs.CKKFAux — lemmas for PrtpyProofs.CKKF (the fixed `optimal`, `Prtpy.ckkF`):
    §1 the step function unfolded (`stepBodyF`, `ckkStepF_eq`), run lemmas (`ckkRunF_inv`, `ckkRunF_mono`)
    §2 the `sums_seen` filter: `firsts`, `dedupSums` as `firsts`, the three de-duplication loops as `firsts`,
       `firsts_comp`, **`dedupSums_allCombContents`**, `dedupSums_allComb_false`
    §3 heterogeneous simulation of heaps (`HSim`) and of search states (`LS`), **`ckkStepF_ls`**, `ckkRunF_ls`
-/
import Prtpy
import PrtpyProofs.Part
import PrtpyProofs.Obj
import PrtpyProofs.Natural
import PrtpyProofs.CKK
import PrtpyProofs.AllComb
import PrtpyProofs.CKKValid
open Prtpy

namespace Prtpy.CKKF

variable {α β : Type}

/-! ## 1. the step function -/

/-- the part of `ckkStepF` after the heap `h` has been popped off the stack and has survived the bound test -/
def stepBodyF (nm : α → Nat) [BEq α] (contents : Bool) (h : Heap α) (s : CkkState α) : CkkState α :=
    if h.length == 1 then
      let d : Int := -((topDiffOf h : Nat) : Int)
      if EInt.lt s.best (.fin d) then
        let bp := (htop h).map (·.bins)
        let s := { s with best := .fin d, bestP := bp,
                          yields := match bp with | some b => b :: s.yields | none => s.yields }
        if d == 0 then { s with done := true } else s
      else s
    else
      match hpop h with
      | none => s
      | some (e1, h1) =>
        match hpop h1 with
        | none => s
        | some (e2, h2) =>
          let combs := dedupSums (allComb nm contents e1.bins e2.bins)
          let r := combs.foldl (fun (acc : List (Heap α) × Nat) nb =>
                      let p := hpush h2 acc.2 nb; (acc.1 ++ [p.1], p.2)) ([], s.cnt)
          let ext := sortDesc topDiffOf r.1
          { s with stack := ext.reverse ++ s.stack, cnt := r.2 }

theorem ckkStepF_eq (nm : α → Nat) [BEq α] (k : Nat) (contents : Bool) (s : CkkState α) :
    ckkStepF nm k contents s =
      match s.stack with
      | [] => { s with done := true }
      | h :: stack =>
        if CKKValid.prunedB k h s.best then { s with stack := stack }
        else stepBodyF nm contents h { s with stack := stack } := by
  unfold ckkStepF stepBodyF CKKValid.prunedB
  rfl

theorem ckkRunF_inv (nm : α → Nat) [BEq α] (k : Nat) (contents : Bool) (P : CkkState α → Prop)
    (hstep : ∀ s, P s → P (ckkStepF nm k contents s)) :
    ∀ (fuel : Nat) (s : CkkState α), P s → P (ckkRunF nm k contents fuel s) := by
  intro fuel
  induction fuel with
  | zero => intro s hs; exact hs
  | succ n ih =>
    intro s hs
    simp only [ckkRunF]
    split
    · exact hs
    · exact ih _ (hstep s hs)

theorem ckkRunF_of_done (nm : α → Nat) [BEq α] (k : Nat) (contents : Bool) (fuel : Nat)
    {s : CkkState α} (h : s.done = true) : ckkRunF nm k contents fuel s = s := by
  cases fuel with
  | zero => rfl
  | succ n => simp only [ckkRunF, h, if_true]

theorem ckkRunF_add (nm : α → Nat) [BEq α] (k : Nat) (contents : Bool) (a b : Nat) (s : CkkState α) :
    ckkRunF nm k contents (a + b) s = ckkRunF nm k contents b (ckkRunF nm k contents a s) := by
  induction a generalizing s with
  | zero => simp [ckkRunF]
  | succ a ih =>
    rw [Nat.add_right_comm]
    simp only [ckkRunF]
    split
    · rename_i hd; rw [ckkRunF_of_done _ _ _ _ hd]
    · exact ih _

/-- once the run is `done`, more fuel changes nothing -/
theorem ckkRunF_mono (nm : α → Nat) [BEq α] (k : Nat) (contents : Bool) {fuel fuel' : Nat}
    (hf : fuel ≤ fuel') (s : CkkState α) (hd : (ckkRunF nm k contents fuel s).done = true) :
    ckkRunF nm k contents fuel' s = ckkRunF nm k contents fuel s := by
  obtain ⟨d, rfl⟩ := Nat.exists_eq_add_of_le hf
  rw [ckkRunF_add, ckkRunF_of_done _ _ _ _ hd]

/-! ## 2. the filter -/

/-- keep the elements whose key has not been seen yet -/
def firsts {γ κ : Type} [BEq κ] (key : γ → κ) : List γ → List κ → List γ
  | [], _ => []
  | x :: xs, seen => if seen.contains (key x) then firsts key xs seen else x :: firsts key xs (key x :: seen)

theorem firsts_sublist {γ κ : Type} [BEq κ] (key : γ → κ) : ∀ (l : List γ) (seen : List κ),
    (firsts key l seen).Sublist l
  | [], _ => List.Sublist.refl _
  | x :: xs, seen => by
    simp only [firsts]
    split
    · exact (firsts_sublist key xs seen).cons x
    · exact (firsts_sublist key xs _).cons_cons x

theorem dedupSumsAux_eq_firsts (l : List (Bins α)) (seen : List (List Nat)) :
    dedupSumsAux l seen = firsts (fun b : Bins α => sortAsc id b.sums) l seen := by
  induction l generalizing seen with
  | nil => rfl
  | cons b rest ih =>
    simp only [dedupSumsAux, firsts]
    split
    · exact ih seen
    · rw [ih]

theorem dedupSums_eq_firsts (l : List (Bins α)) :
    dedupSums l = firsts (fun b : Bins α => sortAsc id b.sums) l [] :=
  dedupSumsAux_eq_firsts l []

theorem dedupSums_sublist (l : List (Bins α)) : (dedupSums l).Sublist l := by
  rw [dedupSums_eq_firsts]; exact firsts_sublist _ _ _

theorem dedupSums_length_le (l : List (Bins α)) : (dedupSums l).length ≤ l.length :=
  (dedupSums_sublist l).length_le

theorem dedupSums_ne_nil {l : List (Bins α)} (h : l ≠ []) : dedupSums l ≠ [] := by
  cases l with
  | nil => exact absurd rfl h
  | cons b rest => simp [dedupSums, dedupSumsAux]

/-- on a list without repetitions, none of whose keys has been seen, `firsts` keeps everything -/
theorem firsts_id_of_nodup {κ : Type} [BEq κ] [LawfulBEq κ] : ∀ (l seen : List κ), l.Nodup →
    (∀ x ∈ l, x ∉ seen) → firsts id l seen = l
  | [], _, _, _ => rfl
  | x :: xs, seen, hnd, hns => by
    have hx : ¬ seen.contains (id x) = true := fun hc => hns x List.mem_cons_self (List.contains_iff_mem.1 hc)
    simp only [firsts, hx]
    rw [List.nodup_cons] at hnd
    simp only [Bool.false_eq_true, if_false, id]
    rw [firsts_id_of_nodup xs (x :: seen) hnd.2]
    intro y hy hys
    rcases List.mem_cons.1 hys with rfl | hys
    · exact hnd.1 hy
    · exact hns y (List.mem_cons_of_mem _ hy) hys

/-- `firsts` only looks at keys -/
theorem firsts_map {γ κ : Type} [BEq κ] (key : γ → κ) : ∀ (l : List γ) (seen : List κ),
    (firsts key l seen).map key = firsts id (l.map key) seen
  | [], _ => rfl
  | x :: xs, seen => by
    simp only [firsts, List.map_cons, id]
    split
    · exact firsts_map key xs seen
    · rw [List.map_cons, firsts_map key xs]

/-- **two filters in a row**: filtering on a finer key `f` first does not change what a filter on `g` keeps (as
    keys), provided equal `f`-keys imply equal `g`-keys and every element already dropped by `f` is dropped by `g` -/
theorem firsts_comp {γ κ₁ κ₂ : Type} [BEq κ₁] [LawfulBEq κ₁] [BEq κ₂] [LawfulBEq κ₂] (f : γ → κ₁) (g : γ → κ₂) :
    ∀ (l : List γ) (seenF : List κ₁) (seenG : List κ₂),
      (∀ x ∈ l, ∀ y ∈ l, f x = f y → g x = g y) → (∀ x ∈ l, f x ∈ seenF → g x ∈ seenG) →
      (firsts g (firsts f l seenF) seenG).map g = firsts id (l.map g) seenG
  | [], _, _, _, _ => rfl
  | x :: xs, seenF, seenG, H, C => by
    have H' : ∀ a ∈ xs, ∀ b ∈ xs, f a = f b → g a = g b :=
      fun a ha b hb => H a (List.mem_cons_of_mem _ ha) b (List.mem_cons_of_mem _ hb)
    have C' : ∀ a ∈ xs, f a ∈ seenF → g a ∈ seenG := fun a ha => C a (List.mem_cons_of_mem _ ha)
    by_cases hF : seenF.contains (f x) = true
    · have hG : seenG.contains (g x) = true :=
        List.contains_iff_mem.2 (C x List.mem_cons_self (List.contains_iff_mem.1 hF))
      simp only [firsts, hF, if_true, List.map_cons, id, hG]
      exact firsts_comp f g xs seenF seenG H' C'
    · simp only [firsts, hF, Bool.false_eq_true, if_false, List.map_cons, id]
      by_cases hG : seenG.contains (g x) = true
      · simp only [hG, if_true]
        refine firsts_comp f g xs (f x :: seenF) seenG H' ?_
        intro a ha hfa
        rcases List.mem_cons.1 hfa with e | hfa
        · rw [H a (List.mem_cons_of_mem _ ha) x List.mem_cons_self e]
          exact List.contains_iff_mem.1 hG
        · exact C' a ha hfa
      · simp only [hG, Bool.false_eq_true, if_false, List.map_cons]
        congr 1
        refine firsts_comp f g xs (f x :: seenF) (g x :: seenG) H' ?_
        intro a ha hfa
        rcases List.mem_cons.1 hfa with e | hfa
        · rw [H a (List.mem_cons_of_mem _ ha) x List.mem_cons_self e]
          exact List.mem_cons_self
        · exact List.mem_cons_of_mem _ (C' a ha hfa)

/-- the loop of the sums-only manager as a filter -/
theorem allCombSumsAux_eq_firsts (b1 b2 : List Nat) (perms acc : List (List Nat)) :
    allCombSumsAux b1 b2 perms acc = acc.reverse ++ firsts id (perms.map (CKKProofs.canonS b1 b2)) acc := by
  induction perms generalizing acc with
  | nil => simp [allCombSumsAux, firsts]
  | cons perm rest ih =>
    rw [CKKProofs.allCombSumsAux_cons]
    simp only [List.map_cons, firsts, id]
    by_cases h : CKKProofs.canonS b1 b2 perm ∈ acc
    · rw [if_pos h, if_pos (List.contains_iff_mem.2 h)]
      exact ih acc
    · have h' : ¬ acc.contains (CKKProofs.canonS b1 b2 perm) = true := fun hc => h (List.contains_iff_mem.1 hc)
      rw [if_neg h, if_neg h', ih]
      simp

theorem allCombSums_eq_firsts (b1 b2 : List Nat) :
    allCombSums b1 b2 = firsts id ((lexPerms (List.range b1.length)).map (CKKProofs.canonS b1 b2)) [] := by
  unfold allCombSums
  rw [allCombSumsAux_eq_firsts]
  simp

/-- the loop of the contents manager as a filter -/
theorem allCombContentsAux_eq_firsts (nm : α → Nat) [BEq α] [LawfulBEq α] (b1 b2 : Bins α)
    (perms : List (List Nat)) (acc : List (Bins α)) :
    allCombContentsAux nm b1 b2 perms acc =
      acc.reverse ++ firsts (fun b : Bins α => b.lists) (perms.map (AllComb.canonC nm b1 b2)) (acc.map (·.lists)) := by
  induction perms generalizing acc with
  | nil => simp [AllComb.aux_nil, firsts]
  | cons perm rest ih =>
    rw [AllComb.aux_cons]
    simp only [List.map_cons, firsts]
    have e : acc.any (fun o => o.lists == (AllComb.canonC nm b1 b2 perm).lists)
        = (acc.map (·.lists)).contains (AllComb.canonC nm b1 b2 perm).lists := by
      rw [Bool.eq_iff_iff, AllComb.any_lists_iff, List.contains_iff_mem, List.mem_map]
    rw [e]
    split
    · exact ih acc
    · rw [ih]
      simp

theorem allCombContents_eq_firsts (nm : α → Nat) [BEq α] [LawfulBEq α] (b1 b2 : Bins α) :
    allCombContents nm b1 b2 =
      firsts (fun b : Bins α => b.lists) ((lexPerms (List.range b1.sums.length)).map (AllComb.canonC nm b1 b2)) [] := by
  unfold allCombContents
  rw [allCombContentsAux_eq_firsts]
  simp

/-- the sorted key of a canonical pairing of the contents manager is the canonical pairing of the sums manager -/
theorem canonC_key (nm : α → Nat) (b1 b2 : Bins α) (perm : List Nat) (hb2 : b2.sums.length = b2.lists.length) :
    sortAsc id (AllComb.canonC nm b1 b2 perm).sums = CKKProofs.canonS b1.sums b2.sums perm := by
  unfold AllComb.canonC
  rw [CKKValid.binsSortAsc_sums _ (by simp [pairBy, hb2]), Obj.sortAsc_idem]
  rfl

/-- **key lemma of fix F11**: after the `sums_seen` filter, the combinations of the contents manager have exactly
    the sums (in the same order) that the sums-only manager generates -/
theorem dedupSums_allCombContents [BEq α] [LawfulBEq α] (v nm : α → Nat) {k : Nat} {b1 b2 : Bins α}
    (c1 : b1.Consistent v) (c2 : b2.Consistent v) (hk1 : b1.sums.length = k) (hk2 : b2.sums.length = k) :
    (dedupSums (allCombContents nm b1 b2)).map (·.sums) = allCombSums b1.sums b2.sums := by
  have hspec : ∀ nb ∈ (lexPerms (List.range b1.sums.length)).map (AllComb.canonC nm b1 b2),
      nb.Consistent v ∧ nb.sums.Pairwise (· ≤ ·) := by
    intro nb hnb
    obtain ⟨perm, hp, rfl⟩ := List.mem_map.1 hnb
    have hperm : perm.Perm (List.range k) := hk1 ▸ CKKProofs.lexPerms_perm hp
    obtain ⟨q1, _, _, q4, _⟩ := AllComb.canonC_spec v nm c1 c2 hk1 hk2 hperm
    exact ⟨q1, q4⟩
  rw [dedupSums_eq_firsts, allCombContents_eq_firsts]
  -- every element kept is a canonical pairing, so its sums are already sorted
  have hmap : (firsts (fun b : Bins α => sortAsc id b.sums)
        (firsts (fun b : Bins α => b.lists)
          ((lexPerms (List.range b1.sums.length)).map (AllComb.canonC nm b1 b2)) []) []).map (·.sums)
      = (firsts (fun b : Bins α => sortAsc id b.sums)
        (firsts (fun b : Bins α => b.lists)
          ((lexPerms (List.range b1.sums.length)).map (AllComb.canonC nm b1 b2)) []) []).map
          (fun b : Bins α => sortAsc id b.sums) := by
    apply List.map_congr_left
    intro nb hnb
    have h1 := (firsts_sublist _ _ _).subset hnb
    have h2 := (firsts_sublist _ _ _).subset h1
    exact (Obj.sortAsc_of_sorted (hspec nb h2).2).symm
  rw [hmap, firsts_comp (fun b : Bins α => b.lists) (fun b : Bins α => sortAsc id b.sums) _ [] [] ?_ ?_]
  · rw [allCombSums_eq_firsts, List.map_map]
    congr 1
    apply List.map_congr_left
    intro perm _
    exact canonC_key nm b1 b2 perm (Part.consistent_length v c2)
  · intro x hx y hy hxy
    have ex := (hspec x hx).1
    have ey := (hspec y hy).1
    unfold Bins.Consistent at ex ey
    show sortAsc id x.sums = sortAsc id y.sums
    rw [ex, ey, hxy]
  · intro x _ h; cases h

/-- with the sums-only manager the filter is the identity -/
theorem dedupSums_allComb_false (nm : α → Nat) [BEq α] (b1 b2 : Bins α) :
    dedupSums (allComb nm false b1 b2) = allComb nm false b1 b2 := by
  simp only [allComb, Bool.false_eq_true, if_false]
  rw [dedupSums_eq_firsts]
  have hsorted : ∀ s ∈ allCombSums b1.sums b2.sums, sortAsc id s = s := by
    intro s hs
    obtain ⟨perm, _, rfl⟩ := CKKProofs.allCombSums_sound rfl hs
    exact Obj.sortAsc_idem _
  -- `firsts` on the image of a list whose keys are the elements themselves
  have key : ∀ (l seen : List (List Nat)), (∀ s ∈ l, sortAsc id s = s) → l.Nodup → (∀ s ∈ l, s ∉ seen) →
      firsts (fun b : Bins α => sortAsc id b.sums)
        (l.map fun s => (⟨s, List.replicate s.length []⟩ : Bins α)) seen
        = l.map fun s => (⟨s, List.replicate s.length []⟩ : Bins α) := by
    intro l
    induction l with
    | nil => intro _ _ _ _; rfl
    | cons s rest ih =>
      intro seen hs hnd hns
      rw [List.nodup_cons] at hnd
      have e : sortAsc id s = s := hs s List.mem_cons_self
      have hc : ¬ seen.contains s = true := fun hc => hns s List.mem_cons_self (List.contains_iff_mem.1 hc)
      simp only [List.map_cons, firsts, e, hc, Bool.false_eq_true, if_false]
      rw [ih (s :: seen) (fun t ht => hs t (List.mem_cons_of_mem _ ht)) hnd.2]
      intro t ht hts
      rcases List.mem_cons.1 hts with rfl | hts
      · exact hnd.1 ht
      · exact hns t (List.mem_cons_of_mem _ ht) hts
  exact key _ [] hsorted (CKKProofs.allCombSums_nodup _ _) (fun _ _ h => by cases h)

/-- … so its sums are those of the sums manager -/
theorem dedupSums_allComb_false_sums (nm : α → Nat) [BEq α] (b1 b2 : Bins α) :
    (dedupSums (allComb nm false b1 b2)).map (·.sums) = allCombSums b1.sums b2.sums := by
  rw [dedupSums_allComb_false]
  simp only [allComb, Bool.false_eq_true, if_false, List.map_map]
  exact List.map_id'' (fun _ => rfl) _

/-- every combination is balanced: as many sums as lists -/
theorem allComb_bal (nm : α → Nat) [BEq α] (contents : Bool) (b1 b2 nb : Bins α)
    (h : nb ∈ allComb nm contents b1 b2) : nb.sums.length = nb.lists.length := by
  cases contents with
  | true =>
    simp only [allComb, if_true] at h
    obtain ⟨perm, _, rfl⟩ := AllComb.allCombContents_sound nm rfl h
    exact CKKValid.binsSortAsc_bal _
  | false =>
    simp only [allComb, Bool.false_eq_true, if_false, List.mem_map] at h
    obtain ⟨s, _, rfl⟩ := h
    simp

/-! ## 3. heterogeneous simulation -/

/-- same keys, counters and sums, entry by entry — across item types -/
def HSim (h : Heap α) (g : Heap β) : Prop := h.map CKKValid.key = g.map CKKValid.key

theorem hsim_length {h : Heap α} {g : Heap β} (hs : HSim h g) : h.length = g.length := by
  have := congrArg List.length hs
  simpa using this

theorem key_eq' {e : HEntry α} {e' : HEntry β} (h : CKKValid.key e = CKKValid.key e') :
    e.diff = e'.diff ∧ e.cnt = e'.cnt ∧ e.bins.sums = e'.bins.sums := by
  simp only [CKKValid.key, Prod.mk.injEq] at h
  exact h

theorem before_hkey' {e1 e2 : HEntry α} {e1' e2' : HEntry β} (h1 : CKKValid.key e1 = CKKValid.key e1') (h2 : CKKValid.key e2 = CKKValid.key e2') :
    e1.before e2 = e1'.before e2' := by
  obtain ⟨a1, a2, _⟩ := key_eq' h1
  obtain ⟨b1, b2, _⟩ := key_eq' h2
  simp only [HEntry.before, a1, a2, b1, b2]

theorem hbestAux_hsim (es : List (HEntry α)) (es' : List (HEntry β)) (i bi : Nat) (be : HEntry α) (be' : HEntry β)
    (hes : es.map CKKValid.key = es'.map CKKValid.key) (hbe : CKKValid.key be = CKKValid.key be') :
    hbestAux es i bi be = hbestAux es' i bi be' := by
  induction es generalizing es' i bi be be' with
  | nil =>
    cases es' with
    | nil => rfl
    | cons _ _ => simp at hes
  | cons e es ih =>
    cases es' with
    | nil => simp at hes
    | cons e' es' =>
      simp only [List.map_cons, List.cons.injEq] at hes
      simp only [hbestAux, before_hkey' hes.1 hbe]
      split
      · exact ih es' (i + 1) i e e' hes.2 hes.1
      · exact ih es' (i + 1) bi be be' hes.2 hbe

theorem hpop_hsim {h h' : Heap α} {g : Heap β} {e : HEntry α} (hs : HSim h g) (hp : hpop h = some (e, h')) :
    ∃ e' g', hpop g = some (e', g') ∧ CKKValid.key e = CKKValid.key e' ∧ HSim h' g' := by
  unfold HSim at hs
  cases h with
  | nil => simp [hpop, hbest] at hp
  | cons e0 es =>
    cases g with
    | nil => simp at hs
    | cons e0' es' =>
      have hs' := hs
      simp only [List.map_cons, List.cons.injEq] at hs'
      have hi := hbestAux_hsim es es' 1 0 e0 e0' hs'.2 hs'.1
      simp only [hpop, hbest, Option.map_map] at hp ⊢
      rw [← hi]
      generalize hbestAux es 1 0 e0 = i at hp ⊢
      have hget : ((e0 :: es)[i]?).map CKKValid.key = ((e0' :: es')[i]?).map CKKValid.key := by
        rw [← List.getElem?_map, ← List.getElem?_map, hs]
      cases hx : (e0 :: es)[i]? with
      | none => rw [hx] at hp; cases hp
      | some x =>
        rw [hx] at hp hget
        simp only [Option.map_some, Function.comp, Option.some.injEq, Prod.mk.injEq] at hp
        obtain ⟨rfl, rfl⟩ := hp
        cases hx' : (e0' :: es')[i]? with
        | none => rw [hx'] at hget; cases hget
        | some x' =>
          rw [hx'] at hget
          simp only [Option.map_some, Option.some.injEq] at hget
          refine ⟨x', removeAt (e0' :: es') i, rfl, hget, ?_⟩
          unfold HSim
          rw [CKKValid.removeAt_map, CKKValid.removeAt_map, hs]

theorem hpop_none_hsim {h : Heap α} {g : Heap β} (hs : HSim h g) (hp : hpop h = none) : hpop g = none := by
  cases h with
  | cons e0 es =>
    exfalso
    obtain ⟨e, h', hp', _⟩ := Part.hpop_some (e0 :: es) (by simp)
    rw [hp] at hp'; cases hp'
  | nil =>
    have := hsim_length hs
    cases g with
    | nil => rfl
    | cons _ _ => simp at this

theorem hpush_hsim {h : Heap α} {g : Heap β} (c : Nat) {b : Bins α} {b' : Bins β} (hs : HSim h g)
    (hb : b.sums = b'.sums) (hl : b.sums.length = b.lists.length) (hl' : b'.sums.length = b'.lists.length) :
    HSim (hpush h c b).1 (hpush g c b').1 := by
  unfold HSim at *
  simp only [hpush, List.map_append, hs, List.map_cons, List.map_nil, CKKValid.key, CKKValid.binsSortAsc_sums b hl,
    CKKValid.binsSortAsc_sums b' hl', hb]

theorem htop_eq_hpop (h : Heap α) : htop h = (hpop h).map (·.1) := by
  simp only [htop, hpop, Option.map_map]
  rfl

/-- the entry on top of two simulating heaps -/
theorem htop_hsim {h : Heap α} {g : Heap β} (hs : HSim h g) : (htop h).map CKKValid.key = (htop g).map CKKValid.key := by
  rw [htop_eq_hpop, htop_eq_hpop]
  cases hp : hpop h with
  | none => rw [hpop_none_hsim hs hp]; rfl
  | some p =>
    obtain ⟨e, h'⟩ := p
    obtain ⟨e', g', hp', hk, _⟩ := hpop_hsim hs hp
    rw [hp']
    simp [hk]

theorem topDiffOf_hsim {h : Heap α} {g : Heap β} (hs : HSim h g) : topDiffOf h = topDiffOf g := by
  have := htop_hsim hs
  unfold topDiffOf
  cases h1 : htop h with
  | none => rw [h1] at this; cases h2 : htop g with
    | none => rfl
    | some _ => rw [h2] at this; cases this
  | some e =>
    rw [h1] at this
    cases h2 : htop g with
    | none => rw [h2] at this; cases this
    | some e' =>
      rw [h2] at this
      simp only [Option.map_some, Option.some.injEq] at this
      simp [(key_eq' this).1]

theorem ckkBound_hsim {h : Heap α} {g : Heap β} (hs : HSim h g) (k : Nat) : ckkBound h k = ckkBound g k := by
  have : h.flatMap (·.bins.sums) = g.flatMap (·.bins.sums) := by
    have e1 : h.flatMap (·.bins.sums) = (h.map CKKValid.key).flatMap (·.2.2) := by rw [List.flatMap_map]; rfl
    have e2 : g.flatMap (·.bins.sums) = (g.map CKKValid.key).flatMap (·.2.2) := by rw [List.flatMap_map]; rfl
    rw [e1, e2, hs]
  simp only [ckkBound, this]

theorem prunedB_hsim {h : Heap α} {g : Heap β} (hs : HSim h g) (k : Nat) (best : EInt) :
    CKKValid.prunedB k h best = CKKValid.prunedB k g best := by
  unfold CKKValid.prunedB
  rw [ckkBound_hsim hs]

/-! ### what one iteration of the fixed loop can do (`CKKValid.StepRel`, with `gen = false`, `isBest = true`) -/

theorem stepBodyF_cases (nm : α → Nat) [BEq α] (contents : Bool) (h : Heap α) (s : CkkState α) :
    CKKValid.StepRel nm contents false true { s with stack := h :: s.stack } (stepBodyF nm contents h s) := by
  unfold stepBodyF
  split
  · rename_i hlen
    simp only []
    split
    · rename_i hlt
      obtain ⟨e, rfl⟩ : ∃ e, h = [e] := by
        match h, hlen with
        | [e], _ => exact ⟨e, rfl⟩
      split
      · exact ⟨fun h' hh => Or.inl (List.mem_cons_of_mem _ hh),
          Or.inr ⟨e, List.mem_cons_self, hlt, rfl, rfl, rfl⟩⟩
      · exact ⟨fun h' hh => Or.inl (List.mem_cons_of_mem _ hh),
          Or.inr ⟨e, List.mem_cons_self, hlt, rfl, rfl, rfl⟩⟩
    · exact ⟨fun h' hh => Or.inl (List.mem_cons_of_mem _ hh), Or.inl ⟨rfl, rfl, rfl⟩⟩
  · split
    · exact ⟨fun h' hh => Or.inl (List.mem_cons_of_mem _ hh), Or.inl ⟨rfl, rfl, rfl⟩⟩
    · rename_i e1 h1 hp1
      split
      · exact ⟨fun h' hh => Or.inl (List.mem_cons_of_mem _ hh), Or.inl ⟨rfl, rfl, rfl⟩⟩
      · rename_i e2 h2 hp2
        refine ⟨?_, Or.inl ⟨rfl, rfl, rfl⟩⟩
        intro h' hh
        simp only [List.mem_append, List.mem_reverse] at hh
        rcases hh with hh | hh
        · rw [(Part.sortDesc_perm _ _).mem_iff] at hh
          rcases CKKValid.foldl_push_mem h2 _ _ h' hh with h0 | ⟨nb, hnb, c, hc⟩
          · cases h0
          · exact Or.inr ⟨h, e1, h1, e2, h2, nb, c, List.mem_cons_self, hp1, hp2,
              (dedupSums_sublist _).subset hnb, hc⟩
        · exact Or.inl (List.mem_cons_of_mem _ hh)

theorem ckkStepF_cases (nm : α → Nat) [BEq α] (k : Nat) (contents : Bool) (s : CkkState α) :
    CKKValid.StepRel nm contents false true s (ckkStepF nm k contents s) := by
  rw [ckkStepF_eq]
  split
  · exact ⟨fun h' hh => Or.inl hh, Or.inl ⟨rfl, rfl, rfl⟩⟩
  · rename_i h stack hst
    have hsub : ∀ h' ∈ stack, h' ∈ s.stack := fun h' hh => by rw [hst]; exact List.mem_cons_of_mem _ hh
    cases CKKValid.prunedB k h s.best
    · have := stepBodyF_cases nm contents h { s with stack := stack }
      simp only [← hst] at this
      exact this
    · exact ⟨fun h' hh => Or.inl (hsub h' hh), Or.inl ⟨rfl, rfl, rfl⟩⟩

/-- the contents invariant of `CKKValid` is preserved by anything `StepRel` allows -/
theorem sinv_of_stepRel {v nm : α → Nat} [BEq α] {k : Nat} {items : List α} {gen isBest : Bool} {s s' : CkkState α}
    (hrel : CKKValid.StepRel nm true gen isBest s s') (hs : CKKValid.SInv v k items s) :
    CKKValid.SInv v k items s' := by
  obtain ⟨hst, hy⟩ := hrel
  have hnew : ∀ e, [e] ∈ s.stack → CKKValid.POK v k items e.bins :=
    fun e he => (CKKValid.hinv_singleton (hs.stack _ he)).1
  refine ⟨?_, ?_, ?_⟩
  · intro h' hh'
    rcases hst h' hh' with hin | ⟨h, e1, h1, e2, h2, nb, c, hin, hp1, hp2, hnb, rfl⟩
    · exact hs.stack h' hin
    · have hh := hs.stack h hin
      obtain ⟨⟨l1, c1, _, _⟩, ⟨l2, c2, _, _⟩⟩ := CKKValid.hinv_pop2 hh hp1 hp2
      simp only [allComb, if_true] at hnb
      obtain ⟨perm, hperm, rfl⟩ := CKKValid.allCombContents_sound nm hnb
      rw [Part.consistent_length v c1, l1] at hperm
      obtain ⟨q1, q2, _, q4⟩ := CKKValid.canonC_spec v nm l1 c1 l2 c2 hperm
      exact CKKValid.hinv_combine hh hp1 hp2 c q1 q2 q4
  · intro b hb
    rcases hy with ⟨_, _, h3⟩ | ⟨e, he, _, _, _, h3⟩
    · exact hs.bestP b (h3 ▸ hb)
    · rw [h3] at hb; cases hb; exact hnew e he
  · intro b hb
    rcases hy with ⟨_, h2, _⟩ | ⟨e, he, _, _, h2, _⟩
    · exact hs.yields b (h2 ▸ hb)
    · rw [h2] at hb
      rcases List.mem_cons.1 hb with rfl | hb
      · exact hnew e he
      · exact hs.yields b hb

theorem ckkStepF_inv {v nm : α → Nat} [BEq α] {k : Nat} {items : List α} {s : CkkState α}
    (hs : CKKValid.SInv v k items s) : CKKValid.SInv v k items (ckkStepF nm k true s) :=
  sinv_of_stepRel (ckkStepF_cases nm k true s) hs

/-- balanced heaps, balanced incumbent -/
def BalS (s : CkkState α) : Prop :=
  (∀ h ∈ s.stack, CKKValid.Bal h) ∧ ∀ b, s.bestP = some b → b.sums.length = b.lists.length

theorem balS_of_stepRel {nm : α → Nat} [BEq α] {contents gen isBest : Bool} {s s' : CkkState α}
    (hrel : CKKValid.StepRel nm contents gen isBest s s') (hs : BalS s) : BalS s' := by
  obtain ⟨hst, hy⟩ := hrel
  refine ⟨?_, ?_⟩
  · intro h' hh'
    rcases hst h' hh' with hin | ⟨h, e1, h1, e2, h2, nb, c, hin, hp1, hp2, _, rfl⟩
    · exact hs.1 h' hin
    · have hbal := hs.1 h hin
      have hbal2 : CKKValid.Bal h2 := fun e he => hbal e
        (((Part.hpop_perm hp1).trans ((Part.hpop_perm hp2).cons e1)).mem_iff.2 (by simp [he]))
      exact CKKValid.hpush_bal c _ hbal2
  · intro b hb
    rcases hy with ⟨_, _, h3⟩ | ⟨e, he, _, _, _, h3⟩
    · exact hs.2 b (h3 ▸ hb)
    · rw [h3] at hb; cases hb
      exact hs.1 _ he e List.mem_cons_self

theorem ckkStepF_balS {nm : α → Nat} [BEq α] {k : Nat} {contents : Bool} {s : CkkState α} (hs : BalS s) :
    BalS (ckkStepF nm k contents s) :=
  balS_of_stepRel (ckkStepF_cases nm k contents s) hs

theorem balS_of_sinv {v : α → Nat} {k : Nat} {items : List α} {s : CkkState α}
    (h : CKKValid.SInv v k items s) : BalS s := by
  refine ⟨?_, ?_⟩
  · intro g hg e he
    obtain ⟨_, c, _, _⟩ := (h.stack g hg).2 e he
    exact Part.consistent_length v c
  · intro b hb
    exact Part.consistent_length v (h.bestP b hb).1.2.2

/-! ### lock-step -/

/-- the heap as the managers and the heap discipline see it -/
abbrev K (h : Heap α) : List (Nat × Nat × List Nat) := h.map CKKValid.key

/-- the combinations of the two best tuples of `h` have, after the filter, the sums of the sums-only manager -/
def CombGood (nm : α → Nat) [BEq α] (c : Bool) (h : Heap α) : Prop :=
  ∀ e1 h1 e2 h2, hpop h = some (e1, h1) → hpop h1 = some (e2, h2) →
    (dedupSums (allComb nm c e1.bins e2.bins)).map (·.sums) = allCombSums e1.bins.sums e2.bins.sums

theorem combGood_false (nm : α → Nat) [BEq α] (h : Heap α) : CombGood nm false h :=
  fun e1 _ e2 _ _ _ => dedupSums_allComb_false_sums nm e1.bins e2.bins

theorem combGood_true {v : α → Nat} (nm : α → Nat) [BEq α] [LawfulBEq α] {k : Nat} {items : List α} {h : Heap α}
    (hh : CKKValid.HInv v k items h) : CombGood nm true h := by
  intro e1 h1 e2 h2 hp1 hp2
  obtain ⟨⟨l1, c1, _, _⟩, ⟨l2, c2, _, _⟩⟩ := CKKValid.hinv_pop2 hh hp1 hp2
  simp only [allComb, if_true]
  exact dedupSums_allCombContents v nm c1 c2 (by rw [Part.consistent_length v c1, l1])
    (by rw [Part.consistent_length v c2, l2])

/-- two search states that look the same to the heap discipline and to the sums -/
structure LS (s : CkkState α) (t : CkkState β) : Prop where
  stack : s.stack.map K = t.stack.map K
  cnt : s.cnt = t.cnt
  best : s.best = t.best
  done : s.done = t.done
  bestP : s.bestP.map (·.sums) = t.bestP.map (·.sums)

/-- pushing combinations with the same sums on clones of simulating heaps -/
theorem pushClones_hsim {h2 : Heap α} {g2 : Heap β} (hs : HSim h2 g2) :
    ∀ (combs : List (Bins α)) (combs' : List (Bins β)) (acc : List (Heap α)) (acc' : List (Heap β)) (c : Nat),
      combs.map (·.sums) = combs'.map (·.sums) →
      (∀ nb ∈ combs, nb.sums.length = nb.lists.length) → (∀ nb ∈ combs', nb.sums.length = nb.lists.length) →
      acc.map K = acc'.map K →
      ((combs.foldl (fun (acc : List (Heap α) × Nat) nb =>
          let p := hpush h2 acc.2 nb; (acc.1 ++ [p.1], p.2)) (acc, c)).1.map K
        = (combs'.foldl (fun (acc : List (Heap β) × Nat) nb =>
          let p := hpush g2 acc.2 nb; (acc.1 ++ [p.1], p.2)) (acc', c)).1.map K) ∧
      (combs.foldl (fun (acc : List (Heap α) × Nat) nb =>
          let p := hpush h2 acc.2 nb; (acc.1 ++ [p.1], p.2)) (acc, c)).2
        = (combs'.foldl (fun (acc : List (Heap β) × Nat) nb =>
          let p := hpush g2 acc.2 nb; (acc.1 ++ [p.1], p.2)) (acc', c)).2 := by
  intro combs
  induction combs with
  | nil =>
    intro combs' acc acc' c hm _ _ hacc
    cases combs' with
    | nil => exact ⟨hacc, rfl⟩
    | cons _ _ => simp at hm
  | cons nb rest ih =>
    intro combs' acc acc' c hm hb hb' hacc
    cases combs' with
    | nil => simp at hm
    | cons nb' rest' =>
      simp only [List.map_cons, List.cons.injEq] at hm
      simp only [List.foldl_cons]
      have h1 : HSim (hpush h2 c nb).1 (hpush g2 c nb').1 :=
        hpush_hsim c hs hm.1 (hb nb List.mem_cons_self) (hb' nb' List.mem_cons_self)
      have h2' : (hpush h2 c nb).2 = (hpush g2 c nb').2 := rfl
      rw [h2']
      refine ih rest' _ _ _ hm.2 (fun x hx => hb x (List.mem_cons_of_mem _ hx))
        (fun x hx => hb' x (List.mem_cons_of_mem _ hx)) ?_
      simp only [List.map_append, List.map_cons, List.map_nil, hacc]
      congr 1
      congr 1

/-- the top difference, read off the keys -/
def tdK (ks : List (Nat × Nat × List Nat)) : Nat :=
  topDiffOf (ks.map fun p => (⟨p.1, p.2.1, ⟨p.2.2, []⟩⟩ : HEntry Unit))

theorem tdK_K (h : Heap α) : tdK (K h) = topDiffOf h := by
  unfold tdK
  refine (topDiffOf_hsim ?_).symm
  unfold HSim K
  rw [List.map_map, List.map_map]
  rfl

theorem stepBodyF_ls {nm : α → Nat} {nm' : β → Nat} [BEq α] [BEq β] {c c' : Bool} {h : Heap α} {g : Heap β}
    {s : CkkState α} {t : CkkState β} (hs : HSim h g) (hls : LS s t)
    (hg : CombGood nm c h) (hg' : CombGood nm' c' g) :
    LS (stepBodyF nm c h s) (stepBodyF nm' c' g t) := by
  unfold stepBodyF
  rw [← hsim_length hs, ← topDiffOf_hsim hs]
  have hlt : EInt.lt t.best (.fin (-((topDiffOf h : Nat) : Int))) = EInt.lt s.best (.fin (-((topDiffOf h : Nat) : Int))) := by
    rw [hls.best]
  split
  · -- a leaf
    simp only []
    rw [hlt]
    split
    · have hbp : ((htop h).map (·.bins)).map (·.sums) = ((htop g).map (·.bins)).map (·.sums) := by
        have := htop_hsim hs
        rw [Option.map_map, Option.map_map]
        have e1 : (htop h).map ((fun b : Bins α => b.sums) ∘ fun e => e.bins)
            = ((htop h).map CKKValid.key).map (·.2.2) := by rw [Option.map_map]; rfl
        have e2 : (htop g).map ((fun b : Bins β => b.sums) ∘ fun e => e.bins)
            = ((htop g).map CKKValid.key).map (·.2.2) := by rw [Option.map_map]; rfl
        rw [e1, e2, this]
      split
      · exact ⟨hls.stack, hls.cnt, rfl, rfl, hbp⟩
      · exact ⟨hls.stack, hls.cnt, rfl, hls.done, hbp⟩
    · exact hls
  · -- an inner node
    cases hp1 : hpop h with
    | none => rw [hpop_none_hsim hs hp1]; exact hls
    | some p1 =>
      obtain ⟨e1, h1⟩ := p1
      obtain ⟨e1', g1, hq1, hk1, hs1⟩ := hpop_hsim hs hp1
      rw [hq1]
      simp only []
      cases hp2 : hpop h1 with
      | none => rw [hpop_none_hsim hs1 hp2]; exact hls
      | some p2 =>
        obtain ⟨e2, h2⟩ := p2
        obtain ⟨e2', g2, hq2, hk2, hs2⟩ := hpop_hsim hs1 hp2
        rw [hq2]
        simp only []
        have hsums : (dedupSums (allComb nm c e1.bins e2.bins)).map (·.sums)
            = (dedupSums (allComb nm' c' e1'.bins e2'.bins)).map (·.sums) := by
          rw [hg e1 h1 e2 h2 hp1 hp2, hg' e1' g1 e2' g2 hq1 hq2, (key_eq' hk1).2.2, (key_eq' hk2).2.2]
        obtain ⟨r1, r2⟩ := pushClones_hsim hs2 _ _ [] [] s.cnt hsums
          (fun nb hnb => allComb_bal nm c _ _ nb ((dedupSums_sublist _).subset hnb))
          (fun nb hnb => allComb_bal nm' c' _ _ nb ((dedupSums_sublist _).subset hnb)) rfl
        rw [hls.cnt] at r1 r2 ⊢
        refine ⟨?_, r2, hls.best, hls.done, hls.bestP⟩
        simp only [List.map_append, List.map_reverse, hls.stack]
        congr 2
        rw [← Natural.sortDesc_map K topDiffOf tdK (fun a => tdK_K a),
          ← Natural.sortDesc_map K topDiffOf tdK (fun a => tdK_K a), r1]

/-- **one iteration in lock-step** -/
theorem ckkStepF_ls {nm : α → Nat} {nm' : β → Nat} [BEq α] [BEq β] {k : Nat} {c c' : Bool}
    {s : CkkState α} {t : CkkState β} (hls : LS s t)
    (hg : ∀ h ∈ s.stack, CombGood nm c h) (hg' : ∀ g ∈ t.stack, CombGood nm' c' g) :
    LS (ckkStepF nm k c s) (ckkStepF nm' k c' t) := by
  rw [ckkStepF_eq, ckkStepF_eq]
  obtain ⟨hst, hcnt, hbest, hdone, hbp⟩ := hls
  cases hs : s.stack with
  | nil =>
    rw [hs] at hst
    have : t.stack = [] := by simpa using hst.symm
    rw [this]
    exact ⟨by simp, hcnt, hbest, rfl, hbp⟩
  | cons h st =>
    rw [hs] at hst
    cases ht : t.stack with
    | nil => rw [ht] at hst; simp at hst
    | cons g st' =>
      rw [ht] at hst
      simp only [List.map_cons, List.cons.injEq] at hst
      have hsim : HSim h g := hst.1
      simp only []
      have hpr : CKKValid.prunedB k h s.best = CKKValid.prunedB k g t.best := by rw [prunedB_hsim hsim k, hbest]
      rw [hpr]
      have hls0 : LS { s with stack := st } { t with stack := st' } := ⟨hst.2, hcnt, hbest, hdone, hbp⟩
      split
      · exact hls0
      · exact stepBodyF_ls hsim hls0 (hg h (by rw [hs]; exact List.mem_cons_self))
          (hg' g (by rw [ht]; exact List.mem_cons_self))

/-- **the whole run in lock-step** -/
theorem ckkRunF_ls {nm : α → Nat} {nm' : β → Nat} [BEq α] [BEq β] {k : Nat} {c c' : Bool}
    (P : CkkState α → Prop) (Q : CkkState β → Prop)
    (hP : ∀ s, P s → P (ckkStepF nm k c s)) (hQ : ∀ t, Q t → Q (ckkStepF nm' k c' t))
    (hPg : ∀ s, P s → ∀ h ∈ s.stack, CombGood nm c h) (hQg : ∀ t, Q t → ∀ g ∈ t.stack, CombGood nm' c' g) :
    ∀ (fuel : Nat) (s : CkkState α) (t : CkkState β), P s → Q t → LS s t →
      LS (ckkRunF nm k c fuel s) (ckkRunF nm' k c' fuel t) := by
  intro fuel
  induction fuel with
  | zero => intro s t _ _ h; exact h
  | succ n ih =>
    intro s t hs ht hls
    simp only [ckkRunF, ← hls.done]
    split
    · exact hls
    · exact ih _ _ (hP s hs) (hQ t ht) (ckkStepF_ls hls (hPg s hs) (hQg t ht))

/-- the answer of `ckkF`, read off the final state -/
def resultOf (s : CkkState α) : Except Err (Bins α) :=
  if !s.done then .error .fuel else
  match s.bestP with
  | none => .error .indexError
  | some b => .ok b.sortAsc

theorem ckkF_eq_resultOf (v nm : α → Nat) [BEq α] (k : Nat) (contents : Bool) (items : List α) (fuel : Nat) :
    ckkF v nm k contents items fuel = resultOf (ckkRunF nm k contents fuel (ckkInit v k items .negInf)) := rfl

theorem resultOf_ls {s : CkkState α} {t : CkkState β} (hls : LS s t) (hs : BalS s) (ht : BalS t) :
    (resultOf s).map (·.sums) = (resultOf t).map (·.sums) := by
  unfold resultOf
  rw [← hls.done]
  split
  · rfl
  · have hb := hls.bestP
    cases h1 : s.bestP with
    | none =>
      rw [h1] at hb
      cases h2 : t.bestP with
      | none => rfl
      | some _ => rw [h2] at hb; cases hb
    | some b =>
      rw [h1] at hb
      cases h2 : t.bestP with
      | none => rw [h2] at hb; cases hb
      | some b' =>
        rw [h2] at hb
        simp only [Option.map_some, Option.some.injEq] at hb
        show Except.ok b.sortAsc.sums = Except.ok b'.sortAsc.sums
        rw [CKKValid.binsSortAsc_sums b (hs.2 b h1), CKKValid.binsSortAsc_sums b' (ht.2 b' h2), hb]

/-- the initial states on the items and on their values simulate each other -/
theorem ckkInit_ls (v : α → Nat) (k : Nat) (items : List α) (best : EInt) :
    LS (ckkInit v k items best) (ckkInit id k (items.map v) best) := by
  have h := Natural.pushAll_natural v v id (fun _ => rfl) k (sortDesc v items) [] 0
  simp only [List.map_nil] at h
  refine ⟨?_, ?_, rfl, rfl, rfl⟩
  · simp only [ckkInit, Natural.sortDesc_map v v id (fun _ => rfl), h, List.map_cons, List.map_nil, K,
      List.map_map]
    rfl
  · simp only [ckkInit, Natural.sortDesc_map v v id (fun _ => rfl), h]

theorem ckkInit_balS (v : α → Nat) {k : Nat} (hk : 0 < k) (items : List α) (best : EInt) :
    BalS (ckkInit v k items best) :=
  balS_of_sinv (CKKValid.ckkInit_inv hk items best)

end Prtpy.CKKF
