/-
  The traced search of complete Karmarkar–Karp (Model/CKKF.lean, `ckkRunFT` / `ckkFT`) computes what `ckkF` computes:
  the trace is an observer.
-/
import Prtpy.Model.CKKF
namespace Prtpy
namespace CKKF
variable {α : Type}

theorem ckkRunFT_fst (nm : α → Nat) [BEq α] (k : Nat) (contents : Bool) :
    ∀ (fuel : Nat) (s : CkkState α) (tr : CkkTrace), (ckkRunFT nm k contents fuel s tr).1 = ckkRunF nm k contents fuel s := by
  intro fuel
  induction fuel with
  | zero => intro s tr; rfl
  | succ n ih =>
    intro s tr
    unfold ckkRunFT ckkRunF
    split
    · rfl
    · exact ih _ _

/-- dropping the trace gives the modelled `optimal` -/
theorem ckkFT_fst (v nm : α → Nat) [BEq α] (k : Nat) (contents : Bool) (items : List α) (fuel : Nat) :
    (ckkFT v nm k contents items fuel).1 = ckkF v nm k contents items fuel := by
  simp only [ckkFT, ckkF, ckkRunFT_fst]

/-- non-vacuity: three bins, five items: the search pops 17 heaps -/
example : (ckkFT id id 3 false [4, 5, 6, 7, 8] 1000).2.length = 17 := by decide +kernel

end CKKF
end Prtpy
