/-
  PrtpyProofs.HeapRefine — C16 at the reference level: the heap model of the two bins-managers
  (`Prtpy.Heap`: numbered numpy buffers, numbered inner Python lists, numbered outer lists, handles
  that may alias) refines the pool of immutable `Bins α` values (`Heap.PurePool`, `Heap.pureStep`)
  as long as the hand-over discipline is respected.

  Contents
  * `Inv s pool` — the simulation invariant (live handles: `abs` = pool value, well-formed `Good`, pairwise
    separated `Sep`); `Inv.extend` (allocating ops, via `Ext`) and `Inv.frame` (in-place ops, via `Frame`).
  * `step_refines`, `run_refines`, **`heap_refines_pure`** (as stated in the task; the binders `i b` got the
    type annotations `(i : Nat) (b : Bins α)` that Lean needs to elaborate `pool[i]?`).
  * `pure_consistent`, **`all_consistent`**.
  * `unwritten_unchanged` (general independence), **`copy_independent`**.
  * **`args_unmodified_alloc`** (any state, no invariant), **`args_unmodified_combine`**, **`args_unmodified`**.
  * `PStep_map`, `pureRun_map`, **`sums_forget`** (sums depend only on item values).

  Model notes
  * Nothing requested turned out false for the model.
  * The discipline is necessary in the model exactly as in Python: see the `example` after
    `heap_refines_pure` where a later `add` through the array returned by `remove_bins` shows through the
    handed-over (dead) handle.
  * `args_unmodified_alloc` needs no invariant at all: `new`/`copy`/`addEmpty`/`remove`/`concat` only append
    buffers, inner lists, outer lists and one handle.
-/
import Prtpy.Heap
import PrtpyProofs.BinsOps
open Prtpy

namespace Prtpy.HeapRefine

open Heap

variable {α : Type}

/-! ## Generic list helpers -/

section ListHelpers
variable {β : Type}

theorem getD_append_left (l l' : List β) (k : Nat) (d : β) (h : k < l.length) :
    (l ++ l').getD k d = l.getD k d := by
  simp only [List.getD_eq_getElem?_getD, List.getElem?_append_left h]

theorem getD_append_length (l l' : List β) (k : Nat) (d : β) :
    (l ++ l').getD (k + l.length) d = l'.getD k d := by
  simp only [List.getD_eq_getElem?_getD]
  rw [List.getElem?_append_right (by omega)]
  congr 2; omega

theorem getD_append_self (l : List β) (x d : β) : (l ++ [x]).getD l.length d = x := by
  simp [List.getD_eq_getElem?_getD]

theorem getD_modify_ne (l : List β) (f : β → β) (i j : Nat) (d : β) (h : i ≠ j) :
    (l.modify i f).getD j d = l.getD j d := by
  simp only [List.getD_eq_getElem?_getD, List.getElem?_modify_ne f l h]

theorem getD_modify_eq (l : List β) (f : β → β) (i : Nat) (d : β) (h : i < l.length) :
    (l.modify i f).getD i d = f (l.getD i d) := by
  simp only [List.getD_eq_getElem?_getD, List.getElem?_modify_eq, List.getElem?_eq_getElem h]
  rfl

theorem getD_of_lt (l : List β) (i : Nat) (d : β) (h : i < l.length) : l.getD i d = l[i] := by
  simp only [List.getD_eq_getElem?_getD, List.getElem?_eq_getElem h, Option.getD_some]

theorem nodup_getElem_inj {l : List β} (hn : l.Nodup) {i j : Nat} (hi : i < l.length) (hj : j < l.length)
    (e : l[i] = l[j]) : i = j := by
  rw [List.nodup_iff_pairwise_ne, List.pairwise_iff_getElem] at hn
  rcases Nat.lt_trichotomy i j with h | h | h
  · exact absurd e (hn i j hi hj h)
  · exact h
  · exact absurd e.symm (hn j i hj hi h)

/-- Reading back freshly appended cells through their (shifted) indices. -/
theorem map_range_getD_append (pre l : List β) (d : β) :
    ((List.range l.length).map (· + pre.length)).map (fun id => (pre ++ l).getD id d) = l := by
  apply List.ext_getElem?
  intro i
  simp only [List.map_map, List.getElem?_map]
  by_cases hi : i < l.length
  · rw [List.getElem?_range hi]
    simp only [Option.map_some, Function.comp, getD_append_length, getD_of_lt l i d hi,
      List.getElem?_eq_getElem hi]
  · rw [List.getElem?_eq_none (by simpa using hi), List.getElem?_eq_none (by simpa using hi)]
    rfl

theorem nodup_range_shift (n base : Nat) : ((List.range n).map (· + base)).Nodup := by
  rw [List.nodup_iff_pairwise_ne, List.pairwise_map]
  have := @List.nodup_range n
  rw [List.nodup_iff_pairwise_ne] at this
  exact this.imp (fun h e => h (by omega))

theorem mem_range_shift {n base id : Nat} (h : id ∈ (List.range n).map (· + base)) :
    base ≤ id ∧ id < base + n := by
  simp only [List.mem_map, List.mem_range] at h
  obtain ⟨a, ha, rfl⟩ := h
  omega

/-- Reading a `Nodup` list of cell ids after modifying the cell at position `i`. -/
theorem map_getD_modify_nodup (cells : List β) (ids : List Nat) (g : β → β) (d : β) (i : Nat)
    (hn : ids.Nodup) (hi : i < ids.length) (hv : ids[i] < cells.length) :
    ids.map (fun id => (cells.modify ids[i] g).getD id d)
      = (ids.map (fun id => cells.getD id d)).modify i g := by
  apply List.ext_getElem?
  intro j
  rw [List.getElem?_modify, List.getElem?_map, List.getElem?_map]
  by_cases hj : j < ids.length
  · rw [List.getElem?_eq_getElem hj]
    simp only [Option.map_some, Option.map_eq_map]
    by_cases e : i = j
    · subst e
      simp only [if_true, getD_modify_eq _ _ _ _ hv]
    · have : ids[i] ≠ ids[j] := fun e' => e (nodup_getElem_inj hn hi hj e')
      simp only [if_neg e, getD_modify_ne _ _ _ _ _ this]
  · rw [List.getElem?_eq_none (by omega)]; rfl

end ListHelpers

/-! ## The simulation invariant -/

/-- the inner-list ids of a handle -/
def ids (s : State α) (h : Handle) : List Nat := s.outers.getD h.outer []

/-- a handle whose ids are all allocated -/
structure Valid (s : State α) (h : Handle) : Prop where
  buf_lt : h.buf < s.bufs.length
  outer_lt : h.outer < s.outers.length
  ids_lt : ∀ id ∈ ids s h, id < s.inners.length

/-- a well-formed handle: allocated ids, a prefix view of its buffer, one distinct inner list per bin -/
structure Good (s : State α) (h : Handle) : Prop extends Valid s h where
  len_le : h.len ≤ (s.bufs.getD h.buf []).length
  ids_len : (ids s h).length = h.len
  nodup : (ids s h).Nodup

/-- separation of two handles: different buffers, different outer lists, disjoint inner lists -/
structure Sep (s : State α) (a b : Handle) : Prop where
  buf : a.buf ≠ b.buf
  outer : a.outer ≠ b.outer
  disj : ∀ id, id ∈ ids s a → id ∈ ids s b → False

theorem Sep.symm {s : State α} {a b : Handle} (h : Sep s a b) : Sep s b a :=
  ⟨h.buf.symm, h.outer.symm, fun id hb ha => h.disj id ha hb⟩

def Live (p : PurePool α) (i : Nat) : Prop := ∃ b, p[i]? = some (some b)

/-- The simulation invariant between a heap state and a pure pool. -/
structure Inv (s : State α) (p : PurePool α) : Prop where
  len : s.handles.length = p.length
  good : ∀ (i : Nat) (b : Bins α), p[i]? = some (some b) → ∃ hd, s.handles[i]? = some hd ∧ Good s hd ∧ abs s hd = b
  sep : ∀ (i j : Nat) (hi hj : Handle), i ≠ j → Live p i → Live p j → s.handles[i]? = some hi → s.handles[j]? = some hj →
    Sep s hi hj

theorem inv_init : Inv (State.init : State α) [] :=
  ⟨rfl, fun i b h => by simp at h, fun i j _ _ _ h => by obtain ⟨b, hb⟩ := h; simp at hb⟩

/-- Handles may die at any time: the invariant only speaks about live handles. -/
theorem Inv.weaken {s : State α} {p q : PurePool α} (h : Inv s p) (hl : q.length = p.length)
    (hq : ∀ (i : Nat) (b : Bins α), q[i]? = some (some b) → p[i]? = some (some b)) : Inv s q :=
  ⟨h.len.trans hl.symm, fun i b hb => h.good i b (hq i b hb),
   fun i j hi hj ne ⟨bi, li⟩ ⟨bj, lj⟩ => h.sep i j hi hj ne ⟨bi, hq i bi li⟩ ⟨bj, hq j bj lj⟩⟩

theorem kill_length (p : PurePool α) (h : Nat) : (kill p h).length = p.length := by
  simp [kill]

theorem kill_live (p : PurePool α) (h i : Nat) (b : Bins α) (hb : (kill p h)[i]? = some (some b)) :
    p[i]? = some (some b) ∧ i ≠ h := by
  unfold kill at hb
  rw [List.getElem?_set] at hb
  by_cases e : h = i
  · subst e; simp only [if_true] at hb; split at hb <;> simp at hb
  · simp only [if_neg e] at hb; exact ⟨hb, fun e' => e e'.symm⟩

theorem live_eq {p : PurePool α} {h : Nat} {b : Bins α} (hl : live p h = some b) :
    p[h]? = some (some b) := by
  unfold live at hl
  cases hp : p[h]? with
  | none => simp [hp] at hl
  | some o => simp only [hp, Option.join_some] at hl; rw [hl]

/-! ## Frame lemmas -/

/-- `s'` is obtained from `s` by appending cells and one handle -/
structure Ext (s s' : State α) (h' : Handle) : Prop where
  handles : s'.handles = s.handles ++ [h']
  bufs : ∃ x, s'.bufs = s.bufs ++ x
  inners : ∃ x, s'.inners = s.inners ++ x
  outers : ∃ x, s'.outers = s.outers ++ x

theorem Ext.ids_eq {s s' : State α} {h' : Handle} (e : Ext s s' h') {h : Handle} (hv : h.outer < s.outers.length) :
    ids s' h = ids s h := by
  obtain ⟨x, hx⟩ := e.outers
  simp only [ids, hx, getD_append_left _ _ _ _ hv]

theorem Ext.abs_eq {s s' : State α} {h' : Handle} (e : Ext s s' h') {h : Handle} (hv : Valid s h) :
    abs s' h = abs s h := by
  obtain ⟨xb, hb⟩ := e.bufs
  obtain ⟨xi, hi⟩ := e.inners
  have hids := e.ids_eq hv.outer_lt
  unfold ids at hids
  simp only [abs, hids, hb, getD_append_left _ _ _ _ hv.buf_lt, Bins.mk.injEq, true_and]
  apply List.map_congr_left
  intro id hid
  rw [hi, getD_append_left _ _ _ _ (hv.ids_lt id hid)]

theorem Ext.valid {s s' : State α} {h' : Handle} (e : Ext s s' h') {h : Handle} (hv : Valid s h) :
    Valid s' h := by
  obtain ⟨xb, hb⟩ := e.bufs
  obtain ⟨xi, hi⟩ := e.inners
  obtain ⟨xo, ho⟩ := e.outers
  refine ⟨?_, ?_, ?_⟩
  · rw [hb, List.length_append]; have := hv.buf_lt; omega
  · rw [ho, List.length_append]; have := hv.outer_lt; omega
  · intro id hid
    rw [e.ids_eq hv.outer_lt] at hid
    rw [hi, List.length_append]; have := hv.ids_lt id hid; omega

theorem Ext.good {s s' : State α} {h' : Handle} (e : Ext s s' h') {h : Handle} (hg : Good s h) :
    Good s' h := by
  obtain ⟨xb, hb⟩ := e.bufs
  refine ⟨e.valid hg.toValid, ?_, ?_, ?_⟩
  · rw [hb, getD_append_left _ _ _ _ hg.buf_lt]; exact hg.len_le
  · rw [e.ids_eq hg.outer_lt]; exact hg.ids_len
  · rw [e.ids_eq hg.outer_lt]; exact hg.nodup

theorem Ext.sep {s s' : State α} {h' : Handle} (e : Ext s s' h') {a b : Handle} (ha : Valid s a)
    (hb : Valid s b) (hs : Sep s a b) : Sep s' a b :=
  ⟨hs.buf, hs.outer, by rw [e.ids_eq ha.outer_lt, e.ids_eq hb.outer_lt]; exact hs.disj⟩

/-- Generic preservation lemma for the allocating operations. -/
theorem Inv.extend {s s' : State α} {q : PurePool α} {h' : Handle} {b' : Bins α} (h : Inv s q)
    (e : Ext s s' h') (hg : Good s' h') (ha : abs s' h' = b')
    (hsep : ∀ j hj, Live q j → s.handles[j]? = some hj → Sep s' hj h') :
    Inv s' (q ++ [some b']) := by
  have hlen := h.len
  -- live handles of the new pool
  have cases : ∀ i b, (q ++ [some b'])[i]? = some (some b) →
      (i < q.length ∧ q[i]? = some (some b)) ∨ (i = q.length ∧ b = b') := by
    intro i b hb
    rw [List.getElem?_append] at hb
    split at hb
    · exact Or.inl ⟨by assumption, hb⟩
    · rename_i hi
      by_cases e : i = q.length
      · right; subst e; simp at hb; exact ⟨rfl, hb.symm⟩
      · rw [List.getElem?_eq_none (by simp; omega)] at hb; simp at hb
  have hnew : s'.handles[q.length]? = some h' := by
    rw [e.handles, ← hlen]; simp
  have hold : ∀ i, i < q.length → s'.handles[i]? = s.handles[i]? := by
    intro i hi; rw [e.handles, List.getElem?_append_left (by omega)]
  refine ⟨?_, ?_, ?_⟩
  · rw [e.handles]; simp [hlen]
  · intro i b hb
    rcases cases i b hb with ⟨hi, hq⟩ | ⟨rfl, rfl⟩
    · obtain ⟨hd, h1, h2, h3⟩ := h.good i b hq
      exact ⟨hd, by rw [hold i hi, h1], e.good h2, by rw [e.abs_eq h2.toValid, h3]⟩
    · exact ⟨h', hnew, hg, ha⟩
  · intro i j hi hj ne ⟨bi, li⟩ ⟨bj, lj⟩ gi gj
    rcases cases i bi li with ⟨hi', qi⟩ | ⟨rfl, rfl⟩
    · rw [hold i hi'] at gi
      rcases cases j bj lj with ⟨hj', qj⟩ | ⟨rfl, rfl⟩
      · rw [hold j hj'] at gj
        obtain ⟨_, h1, h2, _⟩ := h.good i bi qi
        obtain ⟨_, h1', h2', _⟩ := h.good j bj qj
        rw [gi] at h1; cases h1
        rw [gj] at h1'; cases h1'
        exact e.sep h2.toValid h2'.toValid (h.sep i j hi hj ne ⟨bi, qi⟩ ⟨bj, qj⟩ gi gj)
      · rw [hnew] at gj; cases gj
        exact hsep i hi ⟨bi, qi⟩ gi
    · rw [hnew] at gi; cases gi
      rcases cases j bj lj with ⟨hj', qj⟩ | ⟨rfl, rfl⟩
      · rw [hold j hj'] at gj
        exact (hsep j hj ⟨bj, qj⟩ gj).symm
      · exact absurd rfl ne

/-! ## Allocation of a fully fresh handle (`new_bins`, `copy_bins`) -/

theorem alloc_ext (s : State α) (sums : List Nat) (lists : List (List α)) :
    Ext s (alloc s sums lists).1 (alloc s sums lists).2 :=
  ⟨rfl, ⟨_, rfl⟩, ⟨_, rfl⟩, ⟨_, rfl⟩⟩

theorem alloc_ids (s : State α) (sums : List Nat) (lists : List (List α)) :
    ids (alloc s sums lists).1 (alloc s sums lists).2
      = (List.range lists.length).map (· + s.inners.length) := by
  simp only [ids, alloc, getD_append_self]

theorem alloc_abs (s : State α) (sums : List Nat) (lists : List (List α)) :
    abs (alloc s sums lists).1 (alloc s sums lists).2 = ⟨sums, lists⟩ := by
  have h := alloc_ids s sums lists
  unfold ids at h
  unfold abs
  rw [h]
  simp only [alloc, getD_append_self, List.take_length, map_range_getD_append]

theorem alloc_good (s : State α) (sums : List Nat) (lists : List (List α))
    (hl : sums.length = lists.length) : Good (alloc s sums lists).1 (alloc s sums lists).2 := by
  refine ⟨⟨?_, ?_, ?_⟩, ?_, ?_, ?_⟩
  · simp [alloc]
  · simp [alloc]
  · intro id hid
    rw [alloc_ids] at hid
    have := mem_range_shift hid
    simp only [alloc, List.length_append]; omega
  · simp only [alloc, getD_append_self]; exact Nat.le_refl _
  · rw [alloc_ids]; simp [alloc, hl]
  · rw [alloc_ids]; exact nodup_range_shift _ _

theorem alloc_sep (s : State α) (sums : List Nat) (lists : List (List α)) {hj : Handle}
    (hv : Valid s hj) : Sep (alloc s sums lists).1 hj (alloc s sums lists).2 := by
  refine ⟨?_, ?_, ?_⟩
  · have := hv.buf_lt; simp only [alloc]; omega
  · have := hv.outer_lt; simp only [alloc]; omega
  · intro id h1 h2
    rw [(alloc_ext s sums lists).ids_eq hv.outer_lt] at h1
    rw [alloc_ids] at h2
    have := mem_range_shift h2
    have := hv.ids_lt id h1
    omega

theorem Inv.alloc {s : State α} {p : PurePool α} (h : Inv s p) (sums : List Nat) (lists : List (List α))
    (hl : sums.length = lists.length) : Inv (alloc s sums lists).1 (p ++ [some ⟨sums, lists⟩]) := by
  refine h.extend (alloc_ext s sums lists) (alloc_good s sums lists hl) (alloc_abs s sums lists) ?_
  intro j hj ⟨b, hb⟩ hh
  obtain ⟨hd, h1, h2, _⟩ := h.good j b hb
  rw [hh] at h1; cases h1
  exact alloc_sep s sums lists h2.toValid

/-- lengths of the two components of what a good handle denotes -/
theorem Good.sums_length {s : State α} {h : Handle} (hg : Good s h) : (abs s h).sums.length = h.len := by
  simp only [abs, List.length_take]; have := hg.len_le; omega

theorem Good.lists_length {s : State α} {h : Handle} (hg : Good s h) : (abs s h).lists.length = h.len := by
  simp only [abs, List.length_map]; exact hg.ids_len

variable (v : α → Nat)

theorem step_new {s : State α} {p : PurePool α} (h : Inv s p) (k : Nat) :
    ∃ s', step v s (.new k) = some s' ∧ Inv s' (p ++ [some (Bins.new k)]) :=
  ⟨_, rfl, h.alloc _ _ (by simp)⟩

theorem step_copy {s : State α} {p : PurePool α} (h : Inv s p) (hi : Nat) (b : Bins α)
    (hb : p[hi]? = some (some b)) :
    ∃ s', step v s (.copy hi) = some s' ∧ Inv s' (p ++ [some b]) := by
  obtain ⟨hd, h1, h2, h3⟩ := h.good hi b hb
  refine ⟨(alloc s (abs s hd).sums (abs s hd).lists).1, ?_, ?_⟩
  · simp only [step, h1, Option.bind_eq_bind, Option.bind_some]
  · have := h.alloc (abs s hd).sums (abs s hd).lists (by rw [h2.sums_length, h2.lists_length])
    rw [← h3]; exact this

/-! ## Allocation of a handle that shares inner lists (`add_empty_bins`, `concatenate_bins`) -/

/-- the state after `extra` new inner lists and a new handle with buffer `sums` and inner ids `idl` -/
def sh (s : State α) (extra : List (List α)) (sums : List Nat) (idl : List Nat) : State α :=
  allocShared { s with inners := s.inners ++ extra } sums idl

def shH (s : State α) (sums : List Nat) : Handle := ⟨s.bufs.length, sums.length, s.outers.length⟩

theorem sh_nil (s : State α) (sums : List Nat) (idl : List Nat) : allocShared s sums idl = sh s [] sums idl := by
  simp [sh]

theorem sh_ext (s : State α) (extra : List (List α)) (sums : List Nat) (idl : List Nat) :
    Ext s (sh s extra sums idl) (shH s sums) :=
  ⟨rfl, ⟨_, rfl⟩, ⟨_, rfl⟩, ⟨_, rfl⟩⟩

theorem sh_ids (s : State α) (extra : List (List α)) (sums : List Nat) (idl : List Nat) :
    ids (sh s extra sums idl) (shH s sums) = idl := by
  simp only [ids, sh, shH, allocShared, getD_append_self]

theorem sh_abs (s : State α) (extra : List (List α)) (sums : List Nat) (idl : List Nat) :
    abs (sh s extra sums idl) (shH s sums)
      = ⟨sums, idl.map (fun id => (s.inners ++ extra).getD id [])⟩ := by
  have h := sh_ids s extra sums idl
  unfold ids at h
  unfold abs
  rw [h]
  simp only [sh, shH, allocShared, getD_append_self, List.take_length]

theorem sh_good (s : State α) (extra : List (List α)) (sums : List Nat) (idl : List Nat)
    (hl : idl.length = sums.length) (hn : idl.Nodup)
    (hv : ∀ id ∈ idl, id < s.inners.length + extra.length) :
    Good (sh s extra sums idl) (shH s sums) := by
  refine ⟨⟨?_, ?_, ?_⟩, ?_, ?_, ?_⟩
  · simp [sh, shH, allocShared]
  · simp [sh, shH, allocShared]
  · intro id hid
    rw [sh_ids] at hid
    have := hv id hid
    simp only [sh, allocShared, List.length_append]; omega
  · simp only [sh, shH, allocShared, getD_append_self]; exact Nat.le_refl _
  · rw [sh_ids]; exact hl
  · rw [sh_ids]; exact hn

theorem sh_sep (s : State α) (extra : List (List α)) (sums : List Nat) (idl : List Nat) {hj : Handle}
    (hv : Valid s hj) (hd : ∀ id, id ∈ ids s hj → id ∈ idl → False) :
    Sep (sh s extra sums idl) hj (shH s sums) := by
  refine ⟨?_, ?_, ?_⟩
  · have := hv.buf_lt; simp only [shH]; omega
  · have := hv.outer_lt; simp only [shH]; omega
  · intro id h1 h2
    rw [(sh_ext s extra sums idl).ids_eq hv.outer_lt] at h1
    rw [sh_ids] at h2
    exact hd id h1 h2

theorem step_addEmpty {s : State α} {p : PurePool α} (h : Inv s p) (hi n : Nat) (b : Bins α)
    (hb : p[hi]? = some (some b)) :
    ∃ s', step v s (.addEmpty hi n) = some s' ∧ Inv s' (kill p hi ++ [some (b.addEmpty n)]) := by
  obtain ⟨hd, h1, h2, h3⟩ := h.good hi b hb
  let newIds := (List.range n).map (· + s.inners.length)
  refine ⟨sh s (List.replicate n []) ((abs s hd).sums ++ List.replicate n 0) (ids s hd ++ newIds), ?_, ?_⟩
  · simp only [step, h1, Option.bind_eq_bind, Option.bind_some]; rfl
  · have hq : Inv s (kill p hi) := h.weaken (kill_length p hi) (fun i b hb => (kill_live p hi i b hb).1)
    refine hq.extend (sh_ext _ _ _ _) (sh_good _ _ _ _ ?_ ?_ ?_) ?_ ?_
    · simp [newIds, h2.ids_len, h2.sums_length]
    · rw [List.nodup_append]
      refine ⟨h2.nodup, nodup_range_shift _ _, ?_⟩
      intro a ha c hc e
      subst e
      have := h2.ids_lt a ha
      have := mem_range_shift hc
      omega
    · intro id hid
      rcases List.mem_append.1 hid with hid | hid
      · have := h2.ids_lt id hid; omega
      · have := mem_range_shift hid; simp at this ⊢; omega
    · rw [sh_abs, ← h3]
      simp only [Bins.addEmpty, Bins.concat, Bins.new, List.map_append, Bins.mk.injEq, true_and]
      congr 1
      · simp only [abs]
        apply List.map_congr_left
        intro id hid
        exact getD_append_left _ _ _ _ (h2.ids_lt id hid)
      · have := map_range_getD_append s.inners (List.replicate n ([] : List α)) []
        simpa [newIds] using this
    · intro j hj ⟨bj, lj⟩ gj
      obtain ⟨lj', ne⟩ := kill_live p hi j bj lj
      obtain ⟨hd', g1, g2, _⟩ := h.good j bj lj'
      rw [gj] at g1; cases g1
      have hs := h.sep j hi hj hd ne ⟨bj, lj'⟩ ⟨b, hb⟩ gj h1
      apply sh_sep _ _ _ _ g2.toValid
      intro id i1 i2
      rcases List.mem_append.1 i2 with i2 | i2
      · exact hs.disj id i1 i2
      · have := g2.ids_lt id i1
        have := mem_range_shift i2
        omega

theorem step_concat {s : State α} {p : PurePool α} (h : Inv s p) (i1 i2 : Nat) (b1 b2 : Bins α)
    (hb1 : p[i1]? = some (some b1)) (hb2 : p[i2]? = some (some b2)) (ne : i1 ≠ i2) :
    ∃ s', step v s (.concat i1 i2) = some s' ∧
      Inv s' (kill (kill p i1) i2 ++ [some (b1.concat b2)]) := by
  obtain ⟨a, a1, a2, a3⟩ := h.good i1 b1 hb1
  obtain ⟨c, c1, c2, c3⟩ := h.good i2 b2 hb2
  have hs := h.sep i1 i2 a c ne ⟨b1, hb1⟩ ⟨b2, hb2⟩ a1 c1
  refine ⟨sh s [] ((abs s a).sums ++ (abs s c).sums) (ids s a ++ ids s c), ?_, ?_⟩
  · simp only [step, a1, c1, Option.bind_eq_bind, Option.bind_some, sh_nil]; rfl
  · have hq : Inv s (kill (kill p i1) i2) :=
      h.weaken (by simp [kill_length])
        (fun i b hb => (kill_live p i1 i b (kill_live _ i2 i b hb).1).1)
    refine hq.extend (sh_ext _ _ _ _) (sh_good _ _ _ _ ?_ ?_ ?_) ?_ ?_
    · simp [a2.ids_len, c2.ids_len, a2.sums_length, c2.sums_length]
    · rw [List.nodup_append]
      refine ⟨a2.nodup, c2.nodup, ?_⟩
      intro x hx y hy e
      subst e
      exact hs.disj x hx hy
    · intro id hid
      rcases List.mem_append.1 hid with hid | hid
      · have := a2.ids_lt id hid; simp; omega
      · have := c2.ids_lt id hid; simp; omega
    · rw [sh_abs, ← a3, ← c3]
      simp only [Bins.concat, List.map_append, List.append_nil, Bins.mk.injEq, true_and]
      rfl
    · intro j hj ⟨bj, lj⟩ gj
      obtain ⟨lj1, ne2⟩ := kill_live _ i2 j bj lj
      obtain ⟨lj', ne1⟩ := kill_live p i1 j bj lj1
      obtain ⟨hd', g1, g2, _⟩ := h.good j bj lj'
      rw [gj] at g1; cases g1
      have hs1 := h.sep j i1 hj a ne1 ⟨bj, lj'⟩ ⟨b1, hb1⟩ gj a1
      have hs2 := h.sep j i2 hj c ne2 ⟨bj, lj'⟩ ⟨b2, hb2⟩ gj c1
      apply sh_sep _ _ _ _ g2.toValid
      intro id k1 k2
      rcases List.mem_append.1 k2 with k2 | k2
      · exact hs1.disj id k1 k2
      · exact hs2.disj id k1 k2

/-! ## `remove_bins`: a shorter view of the same buffer, a new outer list sharing the inner lists -/

def rm (s : State α) (a : Handle) (n : Nat) : State α :=
  { s with outers := s.outers ++ [(ids s a).take ((ids s a).length - n)],
           handles := s.handles ++ [⟨a.buf, a.len - n, s.outers.length⟩] }

def rmH (s : State α) (a : Handle) (n : Nat) : Handle := ⟨a.buf, a.len - n, s.outers.length⟩

theorem rm_ext (s : State α) (a : Handle) (n : Nat) : Ext s (rm s a n) (rmH s a n) :=
  ⟨rfl, ⟨[], by simp [rm]⟩, ⟨[], by simp [rm]⟩, ⟨_, rfl⟩⟩

theorem rm_ids (s : State α) (a : Handle) (n : Nat) :
    ids (rm s a n) (rmH s a n) = (ids s a).take ((ids s a).length - n) := by
  simp only [ids, rm, rmH, getD_append_self]

theorem step_remove {s : State α} {p : PurePool α} (h : Inv s p) (hi n : Nat) (b : Bins α)
    (hb : p[hi]? = some (some b)) (hn : n ≤ b.sums.length) :
    ∃ s', step v s (.remove hi n) = some s' ∧ Inv s' (kill p hi ++ [some (b.removeLast n)]) := by
  obtain ⟨a, a1, a2, a3⟩ := h.good hi b hb
  have hn' : n ≤ a.len := by rw [← a2.sums_length, a3]; exact hn
  refine ⟨rm s a n, ?_, ?_⟩
  · simp only [step, a1, Option.bind_eq_bind, Option.bind_some, if_pos hn']; rfl
  · have hq : Inv s (kill p hi) := h.weaken (kill_length p hi) (fun i b hb => (kill_live p hi i b hb).1)
    have hidl := rm_ids s a n
    refine hq.extend (rm_ext s a n) ⟨⟨?_, ?_, ?_⟩, ?_, ?_, ?_⟩ ?_ ?_
    · exact a2.buf_lt
    · simp [rm, rmH]
    · intro id hid
      rw [hidl] at hid
      exact a2.ids_lt id (List.mem_of_mem_take hid)
    · have := a2.len_le
      simp only [rm, rmH]; omega
    · rw [hidl, List.length_take, a2.ids_len]; simp only [rmH]; omega
    · rw [hidl]; exact List.Sublist.nodup (List.take_sublist _ _) a2.nodup
    · have hidl' := hidl
      unfold ids at hidl'
      rw [← a3]
      unfold abs
      rw [hidl']
      simp only [Bins.removeLast, Bins.mk.injEq]
      constructor
      · have e1 := a2.sums_length
        simp only [abs] at e1
        rw [e1, List.take_take]
        simp only [rm, rmH]
        congr 1; omega
      · simp only [rm, List.map_take, List.length_map]
    · intro j hj ⟨bj, lj⟩ gj
      obtain ⟨lj', ne⟩ := kill_live p hi j bj lj
      obtain ⟨hd', g1, g2, _⟩ := h.good j bj lj'
      rw [gj] at g1; cases g1
      have hs := h.sep j hi hj a ne ⟨bj, lj'⟩ ⟨b, hb⟩ gj a1
      refine ⟨hs.buf, ?_, ?_⟩
      · have := g2.outer_lt; simp only [rmH]; omega
      · intro id k1 k2
        rw [(rm_ext s a n).ids_eq g2.outer_lt] at k1
        rw [hidl] at k2
        exact hs.disj id k1 (List.mem_of_mem_take k2)

/-! ## In-place operations: only cells owned by one handle `a` change -/

structure Frame (s s' : State α) (a : Handle) : Prop where
  handles : s'.handles = s.handles
  bufs_len : s'.bufs.length = s.bufs.length
  inners_len : s'.inners.length = s.inners.length
  outers_len : s'.outers.length = s.outers.length
  bufs : ∀ k, k ≠ a.buf → s'.bufs.getD k [] = s.bufs.getD k []
  outers : ∀ k, k ≠ a.outer → s'.outers.getD k [] = s.outers.getD k []
  inners : ∀ k, k ∉ ids s a → s'.inners.getD k [] = s.inners.getD k []
  ids_mem : ∀ k, k ∈ ids s' a ↔ k ∈ ids s a

theorem Frame.ids_eq {s s' : State α} {a : Handle} (f : Frame s s' a) {h : Handle} (ho : h.outer ≠ a.outer) :
    ids s' h = ids s h := f.outers _ ho

/-- A handle separated from `a` denotes the same value before and after. -/
theorem Frame.abs_eq {s s' : State α} {a : Handle} (f : Frame s s' a) {h : Handle} (hs : Sep s h a) :
    abs s' h = abs s h := by
  have hids := f.ids_eq hs.outer
  unfold ids at hids
  simp only [abs, hids, f.bufs _ hs.buf, Bins.mk.injEq, true_and]
  apply List.map_congr_left
  intro id hid
  exact f.inners id (fun h' => hs.disj id hid h')

theorem Frame.good {s s' : State α} {a : Handle} (f : Frame s s' a) {h : Handle} (hs : Sep s h a)
    (hg : Good s h) : Good s' h := by
  have hids := f.ids_eq hs.outer
  refine ⟨⟨?_, ?_, ?_⟩, ?_, ?_, ?_⟩
  · rw [f.bufs_len]; exact hg.buf_lt
  · rw [f.outers_len]; exact hg.outer_lt
  · rw [hids, f.inners_len]; exact hg.ids_lt
  · rw [f.bufs _ hs.buf]; exact hg.len_le
  · rw [hids]; exact hg.ids_len
  · rw [hids]; exact hg.nodup

theorem Frame.sep_a {s s' : State α} {a : Handle} (f : Frame s s' a) {h : Handle} (hs : Sep s h a) :
    Sep s' h a :=
  ⟨hs.buf, hs.outer, fun id h1 h2 => by
    rw [f.ids_eq hs.outer] at h1
    exact hs.disj id h1 ((f.ids_mem id).1 h2)⟩

theorem Frame.sep {s s' : State α} {a : Handle} (f : Frame s s' a) {x y : Handle} (hx : Sep s x a)
    (hy : Sep s y a) (hs : Sep s x y) : Sep s' x y :=
  ⟨hs.buf, hs.outer, by rw [f.ids_eq hx.outer, f.ids_eq hy.outer]; exact hs.disj⟩

theorem set_live {p : PurePool α} {h i : Nat} {b' bi : Bins α}
    (hb : (p.set h (some b'))[i]? = some (some bi)) :
    (i = h ∧ bi = b') ∨ (i ≠ h ∧ p[i]? = some (some bi)) := by
  rw [List.getElem?_set] at hb
  by_cases e : h = i
  · subst e
    simp only [if_true] at hb
    split at hb
    · left; simp at hb; exact ⟨rfl, hb.symm⟩
    · simp at hb
  · simp only [if_neg e] at hb
    exact Or.inr ⟨fun e' => e e'.symm, hb⟩

/-- Generic preservation lemma for the in-place operations. -/
theorem Inv.frame {s s' : State α} {p : PurePool α} {h : Nat} {a : Handle} {b b' : Bins α}
    (hinv : Inv s p) (hb : p[h]? = some (some b)) (ha : s.handles[h]? = some a) (f : Frame s s' a)
    (hg : Good s' a) (hab : abs s' a = b') : Inv s' (p.set h (some b')) := by
  have liveOld : ∀ i, Live (p.set h (some b')) i → Live p i := by
    intro i ⟨bi, li⟩
    rcases set_live li with ⟨rfl, _⟩ | ⟨_, l⟩
    · exact ⟨b, hb⟩
    · exact ⟨bi, l⟩
  have sepA : ∀ i hi, i ≠ h → Live p i → s.handles[i]? = some hi → Sep s hi a :=
    fun i hi ne l g => hinv.sep i h hi a ne l ⟨b, hb⟩ g ha
  refine ⟨?_, ?_, ?_⟩
  · rw [f.handles, hinv.len]; simp
  · intro i bi li
    rw [f.handles]
    rcases set_live li with ⟨rfl, rfl⟩ | ⟨ne, l⟩
    · exact ⟨a, ha, hg, hab⟩
    · obtain ⟨hd, h1, h2, h3⟩ := hinv.good i bi l
      have hs := sepA i hd ne ⟨bi, l⟩ h1
      exact ⟨hd, h1, f.good hs h2, by rw [f.abs_eq hs, h3]⟩
  · intro i j hi hj ne li lj gi gj
    rw [f.handles] at gi gj
    have li' := liveOld i li
    have lj' := liveOld j lj
    have hs := hinv.sep i j hi hj ne li' lj' gi gj
    by_cases ei : i = h
    · subst ei
      rw [ha] at gi; cases gi
      exact (f.sep_a hs.symm).symm
    · by_cases ej : j = h
      · subst ej
        rw [ha] at gj; cases gj
        exact f.sep_a hs
      · exact f.sep (sepA i hi ei li' gi) (sepA j hj ej lj' gj) hs

/-! ### `add_item_to_bin` and `combine_bins`: one buffer cell and one inner list change -/

def upd (s : State α) (a : Handle) (i c : Nat) (ex : List α) : State α :=
  { s with bufs := s.bufs.modify a.buf (·.modify i (· + c)),
           inners := s.inners.modify ((ids s a).getD i 0) (· ++ ex) }

theorem upd_frame {s : State α} {a : Handle} (hg : Good s a) (i c : Nat) (ex : List α) (hi : i < a.len) :
    Frame s (upd s a i c ex) a := by
  have hi' : i < (ids s a).length := by rw [hg.ids_len]; exact hi
  refine ⟨rfl, ?_, ?_, rfl, ?_, ?_, ?_, ?_⟩
  · simp [upd]
  · simp [upd]
  · intro k hk; exact getD_modify_ne _ _ _ _ _ hk.symm
  · intro k _; rfl
  · intro k hk
    apply getD_modify_ne
    intro e
    apply hk
    rw [← e, getD_of_lt _ _ _ hi']
    exact List.getElem_mem hi'
  · intro k; exact Iff.rfl

theorem upd_abs {s : State α} {a : Handle} (hg : Good s a) (i c : Nat) (ex : List α) (hi : i < a.len) :
    abs (upd s a i c ex) a = ⟨(abs s a).sums.modify i (· + c), (abs s a).lists.modify i (· ++ ex)⟩ := by
  have hi' : i < (ids s a).length := by rw [hg.ids_len]; exact hi
  have e0 : (ids s a).getD i 0 = (ids s a)[i] := getD_of_lt _ _ _ hi'
  have hv : (ids s a)[i] < s.inners.length := hg.ids_lt _ (List.getElem_mem hi')
  have key := map_getD_modify_nodup s.inners (ids s a) (· ++ ex) [] i hg.nodup hi' hv
  simp only [abs, upd, e0, getD_modify_eq _ _ _ _ hg.buf_lt, List.take_modify, Bins.mk.injEq, true_and]
  exact key

theorem upd_good {s : State α} {a : Handle} (hg : Good s a) (i c : Nat) (ex : List α) :
    Good (upd s a i c ex) a := by
  refine ⟨⟨?_, ?_, ?_⟩, ?_, ?_, ?_⟩
  · simp only [upd, List.length_modify]; exact hg.buf_lt
  · exact hg.outer_lt
  · intro id hid
    simp only [upd, List.length_modify]; exact hg.ids_lt id hid
  · simp only [upd, getD_modify_eq _ _ _ _ hg.buf_lt, List.length_modify]; exact hg.len_le
  · exact hg.ids_len
  · exact hg.nodup

theorem step_add {s : State α} {p : PurePool α} (h : Inv s p) (hi : Nat) (x : α) (i : Nat) (b : Bins α)
    (hb : p[hi]? = some (some b)) (hlt : i < b.sums.length) :
    ∃ s', step v s (.add hi x i) = some s' ∧ Inv s' (p.set hi (some (b.add v x i))) := by
  obtain ⟨a, a1, a2, a3⟩ := h.good hi b hb
  have hlt' : i < a.len := by rw [← a2.sums_length, a3]; exact hlt
  refine ⟨upd s a i (v x) [x], ?_, ?_⟩
  · simp only [step, a1, Option.bind_eq_bind, Option.bind_some, if_pos hlt']; rfl
  · refine h.frame hb a1 (upd_frame a2 i _ _ hlt') (upd_good a2 i _ _) ?_
    rw [upd_abs a2 i _ _ hlt', a3]; rfl

theorem step_combine {s : State α} {p : PurePool α} (h : Inv s p) (h1 i1 h2 i2 : Nat) (b1 b2 : Bins α)
    (hb1 : p[h1]? = some (some b1)) (hb2 : p[h2]? = some (some b2))
    (hlt : i1 < b1.sums.length ∧ i2 < b2.sums.length) :
    ∃ s', step v s (.combine h1 i1 h2 i2) = some s' ∧
      Inv s' (p.set h1 (some (b1.combine i1 b2 i2))) := by
  obtain ⟨a, a1, a2, a3⟩ := h.good h1 b1 hb1
  obtain ⟨c, c1, c2, c3⟩ := h.good h2 b2 hb2
  have hlt' : i1 < a.len ∧ i2 < c.len := by
    rw [← a2.sums_length, a3, ← c2.sums_length, c3]; exact hlt
  refine ⟨upd s a i1 ((abs s c).sums.getD i2 0) ((abs s c).lists.getD i2 []), ?_, ?_⟩
  · simp only [step, a1, c1, Option.bind_eq_bind, Option.bind_some, if_pos hlt']; rfl
  · refine h.frame hb1 a1 (upd_frame a2 i1 _ _ hlt'.1) (upd_good a2 i1 _ _) ?_
    rw [upd_abs a2 i1 _ _ hlt'.1, a3, c3]; rfl

/-! ### `sort_by_ascending_sum`: the buffer prefix and the outer list are overwritten in place -/

def srtZ (s : State α) (a : Handle) : List (Nat × Nat) :=
  Prtpy.sortAsc (fun p => p.1) ((abs s a).sums.zip (ids s a))

def srt (s : State α) (a : Handle) : State α :=
  { s with bufs := s.bufs.modify a.buf (fun l => writePrefix l ((srtZ s a).map (·.1))),
           outers := s.outers.modify a.outer (fun l => writePrefix l ((srtZ s a).map (·.2))) }

theorem srtZ_perm (s : State α) (a : Handle) : (srtZ s a).Perm ((abs s a).sums.zip (ids s a)) :=
  Part.sortAsc_perm _ _

theorem srtZ_length {s : State α} {a : Handle} (hg : Good s a) : (srtZ s a).length = a.len := by
  rw [(srtZ_perm s a).length_eq, List.length_zip, hg.sums_length, hg.ids_len]; simp

theorem srtZ_snd_perm {s : State α} {a : Handle} (hg : Good s a) :
    ((srtZ s a).map (·.2)).Perm (ids s a) := by
  have := (srtZ_perm s a).map Prod.snd
  rw [List.map_snd_zip (by rw [hg.sums_length, hg.ids_len]; exact Nat.le_refl _)] at this
  exact this

theorem srt_ids {s : State α} {a : Handle} (hg : Good s a) : ids (srt s a) a = (srtZ s a).map (·.2) := by
  simp only [ids, srt, getD_modify_eq _ _ _ _ hg.outer_lt, writePrefix]
  have : List.drop ((srtZ s a).map (·.2)).length (s.outers.getD a.outer []) = [] := by
    apply List.drop_eq_nil_of_le
    have := hg.ids_len; unfold ids at this
    rw [this, List.length_map, srtZ_length hg]; exact Nat.le_refl _
  rw [this, List.append_nil]

theorem srt_frame {s : State α} {a : Handle} (hg : Good s a) : Frame s (srt s a) a := by
  refine ⟨rfl, ?_, rfl, ?_, ?_, ?_, ?_, ?_⟩
  · simp [srt]
  · simp [srt]
  · intro k hk; exact getD_modify_ne _ _ _ _ _ hk.symm
  · intro k hk; exact getD_modify_ne _ _ _ _ _ hk.symm
  · intro k _; rfl
  · intro k; rw [srt_ids hg]; exact (srtZ_snd_perm hg).mem_iff

theorem srt_good {s : State α} {a : Handle} (hg : Good s a) : Good (srt s a) a := by
  refine ⟨⟨?_, ?_, ?_⟩, ?_, ?_, ?_⟩
  · simp only [srt, List.length_modify]; exact hg.buf_lt
  · simp only [srt, List.length_modify]; exact hg.outer_lt
  · intro id hid
    rw [srt_ids hg] at hid
    exact hg.ids_lt id ((srtZ_snd_perm hg).mem_iff.1 hid)
  · simp only [srt, getD_modify_eq _ _ _ _ hg.buf_lt, writePrefix, List.length_append, List.length_map,
      srtZ_length hg]
    omega
  · rw [srt_ids hg, List.length_map, srtZ_length hg]
  · rw [srt_ids hg]; exact (srtZ_snd_perm hg).nodup_iff.2 hg.nodup

theorem srt_abs {s : State α} {a : Handle} (hg : Good s a) : abs (srt s a) a = (abs s a).sortAsc := by
  let g : Nat → List α := fun id => s.inners.getD id []
  have hids := srt_ids hg
  unfold ids at hids
  have e1 : ((srt s a).bufs.getD a.buf []).take a.len = (srtZ s a).map (·.1) := by
    simp only [srt, getD_modify_eq _ _ _ _ hg.buf_lt, writePrefix]
    exact List.take_left' (by rw [List.length_map, srtZ_length hg])
  have eL : abs (srt s a) a = ⟨(srtZ s a).map (·.1), ((srtZ s a).map (·.2)).map g⟩ := by
    unfold abs
    rw [hids, e1]
    rfl
  -- the pure side: sort the (sum, list) pairs
  have hz : (abs s a).sums.zip (abs s a).lists
      = ((abs s a).sums.zip (ids s a)).map (Prod.map id g) := by
    rw [← List.zip_map_right]; rfl
  have hsort : (srtZ s a).map (Prod.map id g)
      = Prtpy.sortAsc (fun p => p.1) (((abs s a).sums.zip (ids s a)).map (Prod.map id g)) :=
    BinsOps.map_sortAsc (Prod.map id g : Nat × Nat → Nat × List α) (fun p => p.1)
      ((abs s a).sums.zip (ids s a))
  have eR : (abs s a).sortAsc = ⟨(srtZ s a).map (·.1), ((srtZ s a).map (·.2)).map g⟩ := by
    simp only [Bins.sortAsc]
    rw [hz, ← hsort]
    simp only [List.map_map, Bins.mk.injEq]
    exact ⟨List.map_congr_left (fun _ _ => rfl), List.map_congr_left (fun _ _ => rfl)⟩
  rw [eL, eR]

theorem step_sort {s : State α} {p : PurePool α} (h : Inv s p) (hi : Nat) (b : Bins α)
    (hb : p[hi]? = some (some b)) :
    ∃ s', step v s (.sort hi) = some s' ∧ Inv s' (p.set hi (some b.sortAsc)) := by
  obtain ⟨a, a1, a2, a3⟩ := h.good hi b hb
  refine ⟨srt s a, ?_, ?_⟩
  · simp only [step, a1, Option.bind_eq_bind, Option.bind_some]; rfl
  · refine h.frame hb a1 (srt_frame a2) (srt_good a2) ?_
    rw [srt_abs a2, a3]

/-! ## One step, then a whole run -/

/-- The pure step as a relation (inversion of `pureStep`; `h` live means `p[h]? = some (some b)`). -/
inductive PStep (v : α → Nat) (p : PurePool α) : Op α → PurePool α → Prop
  | new (k : Nat) : PStep v p (.new k) (p ++ [some (Bins.new k)])
  | add (h : Nat) (x : α) (i : Nat) (b : Bins α) (hb : p[h]? = some (some b)) (hi : i < b.sums.length) :
      PStep v p (.add h x i) (p.set h (some (b.add v x i)))
  | copy (h : Nat) (b : Bins α) (hb : p[h]? = some (some b)) : PStep v p (.copy h) (p ++ [some b])
  | sort (h : Nat) (b : Bins α) (hb : p[h]? = some (some b)) : PStep v p (.sort h) (p.set h (some b.sortAsc))
  | addEmpty (h n : Nat) (b : Bins α) (hb : p[h]? = some (some b)) :
      PStep v p (.addEmpty h n) (kill p h ++ [some (b.addEmpty n)])
  | remove (h n : Nat) (b : Bins α) (hb : p[h]? = some (some b)) (hn : n ≤ b.sums.length) :
      PStep v p (.remove h n) (kill p h ++ [some (b.removeLast n)])
  | concat (h1 h2 : Nat) (b1 b2 : Bins α) (hb1 : p[h1]? = some (some b1)) (hb2 : p[h2]? = some (some b2))
      (ne : h1 ≠ h2) : PStep v p (.concat h1 h2) (kill (kill p h1) h2 ++ [some (b1.concat b2)])
  | combine (h1 i1 h2 i2 : Nat) (b1 b2 : Bins α) (hb1 : p[h1]? = some (some b1))
      (hb2 : p[h2]? = some (some b2)) (ne : h1 ≠ h2) (hi : i1 < b1.sums.length ∧ i2 < b2.sums.length) :
      PStep v p (.combine h1 i1 h2 i2) (p.set h1 (some (b1.combine i1 b2 i2)))

theorem pureStep_inv {p p' : PurePool α} {op : Op α} (hp : pureStep v p op = some p') : PStep v p op p' := by
  cases op with
  | new k =>
    simp only [pureStep, Option.some.injEq] at hp; subst hp
    exact .new k
  | add hi x i =>
    simp only [pureStep, Option.bind_eq_bind] at hp
    cases hl : live p hi with
    | none => simp [hl] at hp
    | some b =>
      simp only [hl, Option.bind_some] at hp
      split at hp
      · rename_i hlt
        simp only [Option.some.injEq] at hp; subst hp
        exact .add hi x i b (live_eq hl) hlt
      · simp at hp
  | copy hi =>
    simp only [pureStep, Option.bind_eq_bind] at hp
    cases hl : live p hi with
    | none => simp [hl] at hp
    | some b =>
      simp only [hl, Option.bind_some, Option.some.injEq] at hp; subst hp
      exact .copy hi b (live_eq hl)
  | sort hi =>
    simp only [pureStep, Option.bind_eq_bind] at hp
    cases hl : live p hi with
    | none => simp [hl] at hp
    | some b =>
      simp only [hl, Option.bind_some, Option.some.injEq] at hp; subst hp
      exact .sort hi b (live_eq hl)
  | addEmpty hi n =>
    simp only [pureStep, Option.bind_eq_bind] at hp
    cases hl : live p hi with
    | none => simp [hl] at hp
    | some b =>
      simp only [hl, Option.bind_some, Option.some.injEq] at hp; subst hp
      exact .addEmpty hi n b (live_eq hl)
  | remove hi n =>
    simp only [pureStep, Option.bind_eq_bind] at hp
    cases hl : live p hi with
    | none => simp [hl] at hp
    | some b =>
      simp only [hl, Option.bind_some] at hp
      split at hp
      · rename_i hn
        simp only [Option.some.injEq] at hp; subst hp
        exact .remove hi n b (live_eq hl) hn
      · simp at hp
  | concat h1 h2 =>
    simp only [pureStep, Option.bind_eq_bind] at hp
    cases hl1 : live p h1 with
    | none => simp [hl1] at hp
    | some b1 =>
      cases hl2 : live p h2 with
      | none => simp [hl1, hl2] at hp
      | some b2 =>
        simp only [hl1, hl2, Option.bind_some] at hp
        split at hp
        · simp at hp
        · rename_i ne
          simp only [Option.some.injEq] at hp; subst hp
          exact .concat h1 h2 b1 b2 (live_eq hl1) (live_eq hl2) ne
  | combine h1 i1 h2 i2 =>
    simp only [pureStep, Option.bind_eq_bind] at hp
    cases hl1 : live p h1 with
    | none => simp [hl1] at hp
    | some b1 =>
      cases hl2 : live p h2 with
      | none => simp [hl1, hl2] at hp
      | some b2 =>
        simp only [hl1, hl2, Option.bind_some] at hp
        split at hp
        · simp at hp
        · split at hp
          · rename_i ne hlt
            simp only [Option.some.injEq] at hp; subst hp
            exact .combine h1 i1 h2 i2 b1 b2 (live_eq hl1) (live_eq hl2) ne hlt
          · simp at hp

theorem live_of_eq {p : PurePool α} {h : Nat} {b : Bins α} (hb : p[h]? = some (some b)) :
    live p h = some b := by
  simp [live, hb]

/-- …and conversely: the relation is exactly the graph of `pureStep`. -/
theorem pureStep_of_PStep {p p' : PurePool α} {op : Op α} (hp : PStep v p op p') :
    pureStep v p op = some p' := by
  cases hp with
  | new k => rfl
  | add h x i b hb hi => simp [pureStep, live_of_eq hb, hi]
  | copy h b hb => simp [pureStep, live_of_eq hb]
  | sort h b hb => simp [pureStep, live_of_eq hb]
  | addEmpty h n b hb => simp [pureStep, live_of_eq hb]
  | remove h n b hb hn => simp [pureStep, live_of_eq hb, hn]
  | concat h1 h2 b1 b2 hb1 hb2 ne => simp [pureStep, live_of_eq hb1, live_of_eq hb2, ne]
  | combine h1 i1 h2 i2 b1 b2 hb1 hb2 ne hi => simp [pureStep, live_of_eq hb1, live_of_eq hb2, ne, hi]

/-- Every discipline-respecting step of the pure pool is matched by the heap, and the invariant is kept. -/
theorem step_refines {s : State α} {p p' : PurePool α} (h : Inv s p) (op : Op α)
    (hp : pureStep v p op = some p') : ∃ s', step v s op = some s' ∧ Inv s' p' := by
  cases pureStep_inv v hp with
  | new k => exact step_new v h k
  | add hi x i b hb hlt => exact step_add v h hi x i b hb hlt
  | copy hi b hb => exact step_copy v h hi b hb
  | sort hi b hb => exact step_sort v h hi b hb
  | addEmpty hi n b hb => exact step_addEmpty v h hi n b hb
  | remove hi n b hb hn => exact step_remove v h hi n b hb hn
  | concat h1 h2 b1 b2 hb1 hb2 ne => exact step_concat v h h1 h2 b1 b2 hb1 hb2 ne
  | combine h1 i1 h2 i2 b1 b2 hb1 hb2 ne hlt => exact step_combine v h h1 i1 h2 i2 b1 b2 hb1 hb2 hlt

theorem run_refines {s : State α} {p p' : PurePool α} (h : Inv s p) (ops : List (Op α))
    (hp : pureRun v p ops = some p') : ∃ s', run v s ops = some s' ∧ Inv s' p' := by
  induction ops generalizing s p with
  | nil =>
    simp only [pureRun, Option.some.injEq] at hp; subst hp
    exact ⟨s, rfl, h⟩
  | cons op ops ih =>
    simp only [pureRun] at hp
    cases hs : pureStep v p op with
    | none => simp [hs] at hp
    | some p1 =>
      simp only [hs] at hp
      obtain ⟨s1, e1, inv1⟩ := step_refines v h op hs
      obtain ⟨s', e2, inv2⟩ := ih inv1 hp
      exact ⟨s', by simp only [run, e1, e2], inv2⟩

/-- **C16, main refinement theorem.**  Any operation sequence accepted by the pure pool (i.e. respecting
    the hand-over discipline, with valid indices) runs on the aliasing heap without error, and every live
    handle denotes in the heap exactly the immutable value the pure pool assigns to it. -/
theorem heap_refines_pure (v : α → Nat) (ops : List (Heap.Op α)) (pool : Heap.PurePool α)
    (h : Heap.pureRun v [] ops = some pool) :
    ∃ s, Heap.run v Heap.State.init ops = some s ∧ s.handles.length = pool.length ∧
      ∀ (i : Nat) (b : Bins α), pool[i]? = some (some b) →
        ∃ hd, s.handles[i]? = some hd ∧ Heap.abs s hd = b := by
  obtain ⟨s, hr, inv⟩ := run_refines v inv_init ops h
  refine ⟨s, hr, inv.len, ?_⟩
  intro i b hb
  obtain ⟨hd, h1, _, h3⟩ := inv.good i b hb
  exact ⟨hd, h1, h3⟩

/-- Non-vacuity: a sequence using every operation, including the three hand-overs. -/
def exOps : List (Op (Nat × Nat)) :=
  [.new 3, .add 0 (7, 3) 1, .copy 0, .sort 0, .addEmpty 0 2, .remove 1 1, .add 3 (9, 5) 0,
   .concat 2 3, .new 2, .add 5 (4, 4) 1, .combine 4 0 5 1]

example : ∃ pool, pureRun Prod.snd [] exOps = some pool ∧ pool.length = 6 ∧
    (pool[4]?.join.map (·.sums)) = some [4, 0, 3, 0, 0, 5, 3] := ⟨_, rfl, rfl, rfl⟩

example : ∃ s, run Prod.snd State.init exOps = some s ∧ s.handles.length = 6 :=
  let ⟨s, h, hl, _⟩ := heap_refines_pure Prod.snd exOps _ rfl
  ⟨s, h, hl⟩

/-- The discipline is necessary: handle 1 was handed over to `remove`; the later `add` through the
    returned handle 3 is visible through the dead handle 1 (same buffer, same inner lists). -/
example : (run Prod.snd State.init exOps).map (fun s => (s.handles[1]?.map (abs s)).map (·.sums))
    = some (some [5, 3, 0]) := rfl

/-! ## Corollary 1: consistency of every live array -/

def PoolConsistent (v : α → Nat) (p : PurePool α) : Prop :=
  ∀ (i : Nat) (b : Bins α), p[i]? = some (some b) → b.Consistent v

theorem append_live {q : PurePool α} {b' b : Bins α} {i : Nat}
    (hb : (q ++ [some b'])[i]? = some (some b)) :
    (i < q.length ∧ q[i]? = some (some b)) ∨ (i = q.length ∧ b = b') := by
  rw [List.getElem?_append] at hb
  split at hb
  · exact Or.inl ⟨by assumption, hb⟩
  · rename_i hi
    by_cases e : i = q.length
    · right; subst e; simp at hb; exact ⟨rfl, hb.symm⟩
    · rw [List.getElem?_eq_none (by simp; omega)] at hb; simp at hb

theorem PoolConsistent.append {p : PurePool α} {b : Bins α} (hp : PoolConsistent v p)
    (hb : b.Consistent v) : PoolConsistent v (p ++ [some b]) := by
  intro i bi hi
  rcases append_live hi with ⟨_, h⟩ | ⟨_, rfl⟩
  · exact hp i bi h
  · exact hb

theorem PoolConsistent.set {p : PurePool α} {b : Bins α} (hp : PoolConsistent v p) (h : Nat)
    (hb : b.Consistent v) : PoolConsistent v (p.set h (some b)) := by
  intro i bi hi
  rcases set_live hi with ⟨_, rfl⟩ | ⟨_, l⟩
  · exact hb
  · exact hp i bi l

theorem PoolConsistent.kill {p : PurePool α} (hp : PoolConsistent v p) (h : Nat) :
    PoolConsistent v (kill p h) :=
  fun i bi hi => hp i bi (kill_live p h i bi hi).1

theorem pureStep_consistent {p p' : PurePool α} {op : Op α} (hc : PoolConsistent v p)
    (hp : pureStep v p op = some p') : PoolConsistent v p' := by
  obtain ⟨c1, c2, _, c4, c5, c6, c7, c8⟩ := BinsOps.op_consistent (α := α) v
  cases pureStep_inv v hp with
  | new k => exact hc.append v (c1 k)
  | add h x i b hb hi => exact hc.set v h (c2 b x i (hc h b hb))
  | copy h b hb => exact hc.append v (hc h b hb)
  | sort h b hb => exact hc.set v h (c8 b (hc h b hb))
  | addEmpty h n b hb => exact (hc.kill v h).append v (c5 b n (hc h b hb))
  | remove h n b hb hn => exact (hc.kill v h).append v (c6 b n (hc h b hb))
  | concat h1 h2 b1 b2 hb1 hb2 ne =>
    exact ((hc.kill v h1).kill v h2).append v (c4 b1 b2 (hc h1 b1 hb1) (hc h2 b2 hb2))
  | combine h1 i1 h2 i2 b1 b2 hb1 hb2 ne hi =>
    exact hc.set v h1 (c7 b1 b2 i1 i2 (hc h1 b1 hb1) (hc h2 b2 hb2))

theorem pureRun_consistent {p p' : PurePool α} (ops : List (Op α)) (hc : PoolConsistent v p)
    (hp : pureRun v p ops = some p') : PoolConsistent v p' := by
  induction ops generalizing p with
  | nil => simp only [pureRun, Option.some.injEq] at hp; subst hp; exact hc
  | cons op ops ih =>
    simp only [pureRun] at hp
    cases hs : pureStep v p op with
    | none => simp [hs] at hp
    | some p1 => simp only [hs] at hp; exact ih (pureStep_consistent v hc hs) hp

/-- From the empty pool the pure operations only ever produce consistent values. -/
theorem pure_consistent (ops : List (Op α)) (pool : PurePool α) (h : pureRun v [] ops = some pool) :
    PoolConsistent v pool :=
  pureRun_consistent v ops (fun i b hb => by simp at hb) h

/-- **C16, consistency.**  After any discipline-respecting sequence every live array of the heap is
    consistent: each bin's sum is the total value of its recorded items. -/
theorem all_consistent (v : α → Nat) (ops : List (Op α)) (pool : PurePool α)
    (h : pureRun v [] ops = some pool) :
    ∃ s, run v State.init ops = some s ∧
      ∀ i, Live pool i → ∃ hd, s.handles[i]? = some hd ∧ (abs s hd).Consistent v := by
  obtain ⟨s, hr, _, hg⟩ := heap_refines_pure v ops pool h
  refine ⟨s, hr, ?_⟩
  intro i ⟨b, hb⟩
  obtain ⟨hd, h1, h2⟩ := hg i b hb
  exact ⟨hd, h1, by rw [h2]; exact pure_consistent v ops pool h i b hb⟩

example : ∃ s, run Prod.snd State.init exOps = some s ∧
    ∀ i, Live (α := Nat × Nat) [none, none, none, none,
        some ⟨[4, 0, 3, 0, 0, 5, 3], [[(4, 4)], [], [(7, 3)], [], [], [(9, 5)], [(7, 3)]]⟩,
        some ⟨[0, 4], [[], [(4, 4)]]⟩] i →
      ∃ hd, s.handles[i]? = some hd ∧ (abs s hd).Consistent Prod.snd :=
  all_consistent Prod.snd exOps _ rfl

/-! ## Corollary 2: independence — a live array changes only through operations applied to itself -/

/-- `op` writes to (or hands over) the array with handle `k`.  The second argument of `combine` and the
    argument of `copy` are only read. -/
def writes : Op α → Nat → Prop
  | .new _, _ => False
  | .add h _ _, k => h = k
  | .copy _, _ => False
  | .sort h, k => h = k
  | .addEmpty h _, k => h = k
  | .remove h _, k => h = k
  | .concat h1 h2, k => h1 = k ∨ h2 = k
  | .combine h1 _ _ _, k => h1 = k

theorem pureStep_length_le {p p' : PurePool α} {op : Op α} (hp : pureStep v p op = some p') :
    p.length ≤ p'.length := by
  cases pureStep_inv v hp <;> simp [kill_length]

/-- Pure side: an operation that does not write `k` leaves the pool entry `k` alone. -/
theorem pureStep_frame {p p' : PurePool α} {op : Op α} (hp : pureStep v p op = some p') (k : Nat)
    (hk : k < p.length) (hw : ¬ writes op k) : p'[k]? = p[k]? := by
  cases pureStep_inv v hp with
  | new _ => exact List.getElem?_append_left hk
  | add h x i b hb hi => exact List.getElem?_set_ne hw
  | copy h b hb => exact List.getElem?_append_left hk
  | sort h b hb => exact List.getElem?_set_ne hw
  | addEmpty h n b hb =>
    rw [List.getElem?_append_left (by rw [kill_length]; exact hk)]
    exact List.getElem?_set_ne hw
  | remove h n b hb hn =>
    rw [List.getElem?_append_left (by rw [kill_length]; exact hk)]
    exact List.getElem?_set_ne hw
  | concat h1 h2 b1 b2 hb1 hb2 ne =>
    rw [List.getElem?_append_left (by rw [kill_length, kill_length]; exact hk)]
    unfold kill
    rw [List.getElem?_set_ne (fun e => hw (Or.inr e)), List.getElem?_set_ne (fun e => hw (Or.inl e))]
  | combine h1 i1 h2 i2 b1 b2 hb1 hb2 ne hi => exact List.getElem?_set_ne hw

theorem pureRun_frame {p p' : PurePool α} (ops : List (Op α)) (hp : pureRun v p ops = some p') (k : Nat)
    (hk : k < p.length) (hw : ∀ op ∈ ops, ¬ writes op k) : p'[k]? = p[k]? := by
  induction ops generalizing p with
  | nil => simp only [pureRun, Option.some.injEq] at hp; subst hp; rfl
  | cons op ops ih =>
    simp only [pureRun] at hp
    cases hs : pureStep v p op with
    | none => simp [hs] at hp
    | some p1 =>
      simp only [hs] at hp
      have h1 := pureStep_frame v hs k hk (hw op (List.mem_cons_self ..))
      have hl := pureStep_length_le v hs
      rw [ih hp (by omega) (fun o ho => hw o (List.mem_cons_of_mem _ ho)), h1]

/-- Heap side: handle objects are never changed or removed, only created. -/
theorem step_handles {s s' : State α} {op : Op α} (h : step v s op = some s') :
    ∃ x, s'.handles = s.handles ++ x := by
  cases op with
  | new k => simp only [step, Option.some.injEq] at h; subst h; exact ⟨_, rfl⟩
  | add hi x i =>
    simp only [step, Option.bind_eq_bind] at h
    cases hh : s.handles[hi]? with
    | none => simp [hh] at h
    | some a =>
      simp only [hh, Option.bind_some] at h
      split at h
      · simp only [Option.some.injEq] at h; subst h; exact ⟨[], by simp⟩
      · simp at h
  | copy hi =>
    simp only [step, Option.bind_eq_bind] at h
    cases hh : s.handles[hi]? with
    | none => simp [hh] at h
    | some a =>
      simp only [hh, Option.bind_some, Option.some.injEq] at h; subst h; exact ⟨_, rfl⟩
  | sort hi =>
    simp only [step, Option.bind_eq_bind] at h
    cases hh : s.handles[hi]? with
    | none => simp [hh] at h
    | some a =>
      simp only [hh, Option.bind_some, Option.some.injEq] at h; subst h; exact ⟨[], by simp⟩
  | addEmpty hi n =>
    simp only [step, Option.bind_eq_bind] at h
    cases hh : s.handles[hi]? with
    | none => simp [hh] at h
    | some a =>
      simp only [hh, Option.bind_some, Option.some.injEq] at h; subst h; exact ⟨_, rfl⟩
  | remove hi n =>
    simp only [step, Option.bind_eq_bind] at h
    cases hh : s.handles[hi]? with
    | none => simp [hh] at h
    | some a =>
      simp only [hh, Option.bind_some] at h
      split at h
      · simp only [Option.some.injEq] at h; subst h; exact ⟨_, rfl⟩
      · simp at h
  | concat h1 h2 =>
    simp only [step, Option.bind_eq_bind] at h
    cases hh1 : s.handles[h1]? with
    | none => simp [hh1] at h
    | some a =>
      cases hh2 : s.handles[h2]? with
      | none => simp [hh1, hh2] at h
      | some c =>
        simp only [hh1, hh2, Option.bind_some, Option.some.injEq] at h; subst h; exact ⟨_, rfl⟩
  | combine h1 i1 h2 i2 =>
    simp only [step, Option.bind_eq_bind] at h
    cases hh1 : s.handles[h1]? with
    | none => simp [hh1] at h
    | some a =>
      cases hh2 : s.handles[h2]? with
      | none => simp [hh1, hh2] at h
      | some c =>
        simp only [hh1, hh2, Option.bind_some] at h
        split at h
        · simp only [Option.some.injEq] at h; subst h; exact ⟨[], by simp⟩
        · simp at h

theorem run_handles {s s' : State α} (ops : List (Op α)) (h : run v s ops = some s') :
    ∃ x, s'.handles = s.handles ++ x := by
  induction ops generalizing s with
  | nil => simp only [run, Option.some.injEq] at h; subst h; exact ⟨[], by simp⟩
  | cons op ops ih =>
    simp only [run] at h
    cases hs : step v s op with
    | none => simp [hs] at h
    | some s1 =>
      simp only [hs] at h
      obtain ⟨x, hx⟩ := step_handles v hs
      obtain ⟨y, hy⟩ := ih h
      exact ⟨x ++ y, by rw [hy, hx, List.append_assoc]⟩

theorem run_handles_get {s s' : State α} (ops : List (Op α)) (h : run v s ops = some s') {k : Nat}
    {hd : Handle} (hk : s.handles[k]? = some hd) : s'.handles[k]? = some hd := by
  obtain ⟨x, hx⟩ := run_handles v ops h
  have : k < s.handles.length := by
    apply Classical.byContradiction; intro hn
    rw [List.getElem?_eq_none (by omega)] at hk; cases hk
  rw [hx, List.getElem?_append_left this, hk]

/-- **General independence.**  From any state related to a pool, a discipline-respecting run in which no
    operation writes to (or hands over) the live array `k` leaves what handle `k` denotes unchanged, no
    matter what happens to all the other arrays — including arrays `k` was copied from / to, and arrays
    that read `k` as the second argument of `combine_bins`. -/
theorem unwritten_unchanged {s : State α} {p p' : PurePool α} (hinv : Inv s p) (ops : List (Op α))
    (hp : pureRun v p ops = some p') (k : Nat) (hd : Handle) (hl : Live p k)
    (hk : s.handles[k]? = some hd) (hw : ∀ op ∈ ops, ¬ writes op k) :
    ∃ s', run v s ops = some s' ∧ Inv s' p' ∧ s'.handles[k]? = some hd ∧ abs s' hd = abs s hd := by
  obtain ⟨s', hr, inv'⟩ := run_refines v hinv ops hp
  obtain ⟨b, hb⟩ := hl
  have hklt : k < p.length := by
    apply Classical.byContradiction; intro hn
    rw [List.getElem?_eq_none (by omega)] at hb; cases hb
  have hb' : p'[k]? = some (some b) := by rw [pureRun_frame v ops hp k hklt hw, hb]
  obtain ⟨hd0, g1, _, g3⟩ := hinv.good k b hb
  rw [hk] at g1; cases g1
  obtain ⟨hd', g1', _, g3'⟩ := inv'.good k b hb'
  have hk' := run_handles_get v ops hr hk
  rw [hk'] at g1'; cases g1'
  exact ⟨s', hr, inv', hk', by rw [g3', g3]⟩

theorem pureRun_append {p : PurePool α} (ops ops' : List (Op α)) :
    pureRun v p (ops ++ ops') = (pureRun v p ops).bind (fun q => pureRun v q ops') := by
  induction ops generalizing p with
  | nil => rfl
  | cons op ops ih =>
    simp only [List.cons_append, pureRun]
    cases pureStep v p op with
    | none => rfl
    | some p1 => exact ih

theorem run_append {s : State α} (ops ops' : List (Op α)) :
    run v s (ops ++ ops') = (run v s ops).bind (fun q => run v q ops') := by
  induction ops generalizing s with
  | nil => rfl
  | cons op ops ih =>
    simp only [List.cons_append, run]
    cases step v s op with
    | none => rfl
    | some s1 => exact ih

/-- **C16, copies are independent in both directions.**  After `ops ++ [copy h]` the original `h` and the
    copy `c` (the last handle) denote the same value; in any continuation `ops'`, if no operation writes
    to the original then the original keeps its value whatever is done to the copy, and if no operation
    writes to the copy then the copy keeps its value whatever is done to the original. -/
theorem copy_independent (v : α → Nat) (ops ops' : List (Op α)) (h : Nat) (pool pool' : PurePool α)
    (h1 : pureRun v [] (ops ++ [.copy h]) = some pool) (h2 : pureRun v pool ops' = some pool') :
    ∃ s s' ho hc, run v State.init (ops ++ [.copy h]) = some s ∧
      run v State.init (ops ++ [.copy h] ++ ops') = some s' ∧
      h ≠ pool.length - 1 ∧
      s.handles[h]? = some ho ∧ s.handles[pool.length - 1]? = some hc ∧
      s'.handles[h]? = some ho ∧ s'.handles[pool.length - 1]? = some hc ∧
      abs s hc = abs s ho ∧
      ((∀ op ∈ ops', ¬ writes op h) → abs s' ho = abs s ho) ∧
      ((∀ op ∈ ops', ¬ writes op (pool.length - 1)) → abs s' hc = abs s hc) := by
  -- the pool just before and after the copy
  rw [pureRun_append] at h1
  cases hq : pureRun v [] ops with
  | none => simp [hq] at h1
  | some q =>
    simp only [hq, Option.bind_some, pureRun] at h1
    cases hcpy : pureStep v q (.copy h) with
    | none => simp [hcpy] at h1
    | some q1 =>
      simp only [hcpy, Option.some.injEq] at h1; subst h1
      cases pureStep_inv v hcpy with
      | copy _ b hb =>
        have hlt : h < q.length := by
          apply Classical.byContradiction; intro hn
          rw [List.getElem?_eq_none (by omega)] at hb; cases hb
        have hc0 : (q ++ [some b]).length - 1 = q.length := by simp
        rw [hc0]
        have lh : (q ++ [some b])[h]? = some (some b) := by
          rw [List.getElem?_append_left hlt]; exact hb
        have lc : (q ++ [some b])[q.length]? = some (some b) := by simp
        have hrun : pureRun v [] (ops ++ [.copy h]) = some (q ++ [some b]) := by
          rw [pureRun_append, hq]; simp only [Option.bind_some, pureRun, hcpy]
        obtain ⟨s, hr, inv⟩ := run_refines v inv_init _ hrun
        obtain ⟨ho, o1, _, o3⟩ := inv.good h b lh
        obtain ⟨hc, c1, _, c3⟩ := inv.good q.length b lc
        obtain ⟨s', hr', inv'⟩ := run_refines v inv ops' h2
        have hfull : run v State.init (ops ++ [.copy h] ++ ops') = some s' := by
          rw [run_append, hr]; exact hr'
        refine ⟨s, s', ho, hc, hr, hfull, by omega, o1, c1, run_handles_get v ops' hr' o1,
          run_handles_get v ops' hr' c1, by rw [o3, c3], ?_, ?_⟩
        · intro hw
          obtain ⟨s'', hr'', _, _, e⟩ := unwritten_unchanged v inv ops' h2 h ho ⟨b, lh⟩ o1 hw
          rw [hr'] at hr''; cases hr''; exact e
        · intro hw
          obtain ⟨s'', hr'', _, _, e⟩ := unwritten_unchanged v inv ops' h2 q.length hc ⟨b, lc⟩ c1 hw
          rw [hr'] at hr''; cases hr''; exact e

/-- non-vacuity: after the copy, the original (handle 0) is sorted and handed over to `add_empty_bins`
    while nothing writes to the copy (handle 1) — and then the other way round. -/
example :=
  copy_independent Prod.snd [.new 3, .add 0 (7, 3) 1] [.sort 0, .addEmpty 0 2, .add 2 (1, 1) 4] 0 _ _ rfl rfl

example : ∀ op ∈ ([.sort 0, .addEmpty 0 2, .add 2 (1, 1) 4] : List (Op (Nat × Nat))), ¬ writes op 1 := by
  simp [writes]

/-! ## Corollary 3: the call itself never alters an argument documented as unmodified -/

/-- the operations that only allocate: they append cells and one handle, and write nowhere else -/
def allocOnly : Op α → Prop
  | .new _ | .copy _ | .addEmpty _ _ | .remove _ _ | .concat _ _ => True
  | _ => False

/-- `new_bins`, `copy_bins`, `add_empty_bins`, `remove_bins`, `concatenate_bins` only append to the heap —
    in *every* state, with no invariant needed. -/
theorem step_ext {s s' : State α} {op : Op α} (ha : allocOnly op) (h : step v s op = some s') :
    ∃ h', Ext s s' h' := by
  cases op with
  | new k => simp only [step, Option.some.injEq] at h; subst h; exact ⟨_, alloc_ext _ _ _⟩
  | copy hi =>
    simp only [step, Option.bind_eq_bind] at h
    cases hh : s.handles[hi]? with
    | none => simp [hh] at h
    | some a =>
      simp only [hh, Option.bind_some, Option.some.injEq] at h; subst h; exact ⟨_, alloc_ext _ _ _⟩
  | addEmpty hi n =>
    simp only [step, Option.bind_eq_bind] at h
    cases hh : s.handles[hi]? with
    | none => simp [hh] at h
    | some a =>
      simp only [hh, Option.bind_some, Option.some.injEq] at h; subst h
      exact ⟨_, sh_ext s (List.replicate n []) _ _⟩
  | remove hi n =>
    simp only [step, Option.bind_eq_bind] at h
    cases hh : s.handles[hi]? with
    | none => simp [hh] at h
    | some a =>
      simp only [hh, Option.bind_some] at h
      split at h
      · simp only [Option.some.injEq] at h; subst h; exact ⟨_, rm_ext s a n⟩
      · simp at h
  | concat h1 h2 =>
    simp only [step, Option.bind_eq_bind] at h
    cases hh1 : s.handles[h1]? with
    | none => simp [hh1] at h
    | some a =>
      cases hh2 : s.handles[h2]? with
      | none => simp [hh1, hh2] at h
      | some c =>
        simp only [hh1, hh2, Option.bind_some, Option.some.injEq, sh_nil] at h; subst h
        exact ⟨_, sh_ext s [] _ _⟩
  | add _ _ _ => exact absurd ha id
  | sort _ => exact absurd ha id
  | combine _ _ _ _ => exact absurd ha id

/-- **Arguments of the allocating calls are unmodified**, in every state: whatever a handle with allocated
    ids denotes before `concatenate_bins` / `add_empty_bins` / `remove_bins` / `copy_bins` / `new_bins`, it
    denotes after the call (the call itself changes no argument; only *later* writes through the returned
    array can show through a handed-over argument). -/
theorem args_unmodified_alloc {s s' : State α} {op : Op α} (ha : allocOnly op) (h : step v s op = some s')
    (hd : Handle) (hv : Valid s hd) : abs s' hd = abs s hd := by
  obtain ⟨h', e⟩ := step_ext v ha h
  exact e.abs_eq hv

/-- **The second argument of `combine_bins` is unmodified** (under the invariant, i.e. when the two arrays
    are distinct live arrays): the call writes only into cells owned by the first argument. -/
theorem args_unmodified_combine {s s' : State α} {p p' : PurePool α} (hinv : Inv s p) (h1 i1 h2 i2 : Nat)
    (hp : pureStep v p (.combine h1 i1 h2 i2) = some p') (hs : step v s (.combine h1 i1 h2 i2) = some s')
    (c : Handle) (hc : s.handles[h2]? = some c) : abs s' c = abs s c := by
  cases pureStep_inv v hp with
  | combine _ _ _ _ b1 b2 hb1 hb2 ne hi =>
    obtain ⟨a, a1, a2, a3⟩ := hinv.good h1 b1 hb1
    obtain ⟨c', c1, c2, c3⟩ := hinv.good h2 b2 hb2
    rw [hc] at c1; cases c1
    have hlt' : i1 < a.len ∧ i2 < c.len := by
      rw [← a2.sums_length, a3, ← c2.sums_length, c3]; exact hi
    have hsep := hinv.sep h2 h1 c a (fun e => ne e.symm) ⟨b2, hb2⟩ ⟨b1, hb1⟩ hc a1
    simp only [step, a1, hc, Option.bind_eq_bind, Option.bind_some, if_pos hlt', Option.some.injEq] at hs
    subst hs
    exact (upd_frame a2 i1 _ _ hlt'.1).abs_eq hsep

/-- `op` mutates the array with handle `k` in place -/
def mutates : Op α → Nat → Prop
  | .add h _ _, k => h = k
  | .sort h, k => h = k
  | .combine h1 _ _ _, k => h1 = k
  | _, _ => False

/-- **C16, every call leaves its documented-unmodified arguments alone.**  Under the invariant, for a call
    accepted by the discipline: every live array that the operation does not mutate in place
    (`add_item_to_bin` / `sort_by_ascending_sum` on it, or first argument of `combine_bins`) denotes the
    same value immediately after the call — in particular both arguments of `concatenate_bins`, the
    argument of `add_empty_bins`, `remove_bins`, `copy_bins`, and the second argument of `combine_bins`. -/
theorem args_unmodified {s s' : State α} {p p' : PurePool α} (hinv : Inv s p) (op : Op α)
    (hp : pureStep v p op = some p') (hs : step v s op = some s') (k : Nat) (hd : Handle)
    (hl : Live p k) (hk : s.handles[k]? = some hd) (hm : ¬ mutates op k) : abs s' hd = abs s hd := by
  obtain ⟨b, hb⟩ := hl
  obtain ⟨hd', g1, g2, g3⟩ := hinv.good k b hb
  rw [hk] at g1; cases g1
  by_cases ha : allocOnly op
  · exact args_unmodified_alloc v ha hs hd g2.toValid
  · -- in-place operations do not kill anything: use the pure frame and the invariant afterwards
    have hw : ¬ writes op k := by
      cases op <;> first | exact absurd trivial ha | exact hm
    obtain ⟨s'', hs'', inv'⟩ := step_refines v hinv op hp
    rw [hs] at hs''; cases hs''
    have hklt : k < p.length := by
      apply Classical.byContradiction; intro hn
      rw [List.getElem?_eq_none (by omega)] at hb; cases hb
    have hb' : p'[k]? = some (some b) := by rw [pureStep_frame v hp k hklt hw, hb]
    obtain ⟨hd', g1', _, g3'⟩ := inv'.good k b hb'
    obtain ⟨x, hx⟩ := step_handles v hs
    have : s'.handles[k]? = some hd := by
      rw [hx, List.getElem?_append_left (by rw [hinv.len]; exact hklt), hk]
    rw [this] at g1'; cases g1'
    rw [g3', g3]

/-- non-vacuity for `args_unmodified_alloc`: `remove_bins` on a concrete heap -/
example : ∃ s s', run Prod.snd State.init [.new 2, .add 0 (7, 3) 1] = some s ∧
    step Prod.snd s (.remove 0 1) = some s' ∧ abs s' ⟨0, 2, 0⟩ = abs s ⟨0, 2, 0⟩ := by
  refine ⟨_, _, rfl, rfl, ?_⟩
  exact args_unmodified_alloc Prod.snd (op := .remove 0 1) trivial rfl _
    ⟨by decide, by decide, by decide⟩

/-- non-vacuity for `args_unmodified` / `args_unmodified_combine`: `combine_bins(a0, 0, a1, 1)` leaves
    `a1` alone -/
example : ∃ s s' c, run Prod.snd State.init [.new 2, .new 2, .add 1 (4, 4) 1] = some s ∧
    step Prod.snd s (.combine 0 0 1 1) = some s' ∧ s.handles[1]? = some c ∧ abs s' c = abs s c ∧
    (abs s' ⟨0, 2, 0⟩).sums = [4, 0] := by
  obtain ⟨s, hr, inv⟩ := run_refines Prod.snd inv_init
    ([.new 2, .new 2, .add 1 (4, 4) 1] : List (Op (Nat × Nat))) (p' := _) rfl
  obtain ⟨s', hs, _⟩ := step_refines Prod.snd inv (.combine 0 0 1 1) (p' := _) rfl
  obtain ⟨c, hc, _, _⟩ := inv.good 1 _ rfl
  refine ⟨s, s', c, hr, hs, hc, args_unmodified_combine Prod.snd inv 0 0 1 1 rfl hs c hc, ?_⟩
  cases hr; cases hs; rfl

/-! ## Corollary 4: the sums-only manager — sums depend only on the values of the items -/

section Forget
variable {β : Type}

/-- substitute item names in an operation -/
def mapItem (f : α → β) : Op α → Op β
  | .new k => .new k
  | .add h x i => .add h (f x) i
  | .copy h => .copy h
  | .sort h => .sort h
  | .addEmpty h n => .addEmpty h n
  | .remove h n => .remove h n
  | .concat h1 h2 => .concat h1 h2
  | .combine h1 i1 h2 i2 => .combine h1 i1 h2 i2

def mapPool (f : α → β) (p : PurePool α) : PurePool β := p.map (Option.map (Bins.mapItems f))

theorem mapPool_get (f : α → β) {p : PurePool α} {h : Nat} {b : Bins α} (hb : p[h]? = some (some b)) :
    (mapPool f p)[h]? = some (some (b.mapItems f)) := by
  simp [mapPool, List.getElem?_map, hb]

theorem mapPool_append (f : α → β) (p : PurePool α) (b : Bins α) :
    mapPool f (p ++ [some b]) = mapPool f p ++ [some (b.mapItems f)] := by
  simp [mapPool]

theorem mapPool_set (f : α → β) (p : PurePool α) (h : Nat) (b : Bins α) :
    mapPool f (p.set h (some b)) = (mapPool f p).set h (some (b.mapItems f)) := by
  simp [mapPool, List.map_set]

theorem mapPool_kill (f : α → β) (p : PurePool α) (h : Nat) :
    mapPool f (kill p h) = kill (mapPool f p) h := by
  simp [mapPool, kill, List.map_set]

/-- The pure step commutes with renaming items by any value-preserving map. -/
theorem PStep_map (f : α → β) (w : β → Nat) (hw : ∀ x, w (f x) = v x) {p p' : PurePool α} {op : Op α}
    (hp : PStep v p op p') : PStep w (mapPool f p) (mapItem f op) (mapPool f p') := by
  cases hp with
  | new k =>
    rw [mapPool_append, BinsOps.mapItems_new]; exact .new k
  | add h x i b hb hi =>
    rw [mapPool_set, BinsOps.mapItems_add f v w b x i (hw x)]
    exact .add h (f x) i _ (mapPool_get f hb) hi
  | copy h b hb => rw [mapPool_append]; exact .copy h _ (mapPool_get f hb)
  | sort h b hb =>
    rw [mapPool_set, BinsOps.mapItems_sortAsc]; exact .sort h _ (mapPool_get f hb)
  | addEmpty h n b hb =>
    rw [mapPool_append, mapPool_kill, BinsOps.mapItems_addEmpty]
    exact .addEmpty h n _ (mapPool_get f hb)
  | remove h n b hb hn =>
    rw [mapPool_append, mapPool_kill, BinsOps.mapItems_removeLast]
    exact .remove h n _ (mapPool_get f hb) hn
  | concat h1 h2 b1 b2 hb1 hb2 ne =>
    rw [mapPool_append, mapPool_kill, mapPool_kill, BinsOps.mapItems_concat]
    exact .concat h1 h2 _ _ (mapPool_get f hb1) (mapPool_get f hb2) ne
  | combine h1 i1 h2 i2 b1 b2 hb1 hb2 ne hi =>
    rw [mapPool_set, BinsOps.mapItems_combine]
    exact .combine h1 i1 h2 i2 _ _ (mapPool_get f hb1) (mapPool_get f hb2) ne hi

theorem pureRun_map (f : α → β) (w : β → Nat) (hw : ∀ x, w (f x) = v x) {p p' : PurePool α}
    (ops : List (Op α)) (hp : pureRun v p ops = some p') :
    pureRun w (mapPool f p) (ops.map (mapItem f)) = some (mapPool f p') := by
  induction ops generalizing p with
  | nil => simp only [pureRun, Option.some.injEq] at hp; subst hp; rfl
  | cons op ops ih =>
    simp only [pureRun] at hp
    cases hs : pureStep v p op with
    | none => simp [hs] at hp
    | some p1 =>
      simp only [hs] at hp
      have := pureStep_of_PStep w (PStep_map v f w hw (pureStep_inv v hs))
      simp only [List.map_cons, pureRun, this]
      exact ih hp

end Forget

/-- **C16 for the sums-only manager.**  Replace every item by its value (`mapItem v`, value function `id`):
    the run on the heap still succeeds, and every live handle denotes the same sums — in fact the same
    bins-array with items renamed.  So the `sums` component of any live array depends only on the values
    of the items, which is why `BinnerKeepingSums` (the same heap with the lists ignored) agrees with
    `BinnerKeepingContents` on sums.  The effect of each operation on the sums alone is given by
    `BinsOps.forget_*`. -/
theorem sums_forget (v : α → Nat) (ops : List (Op α)) (pool : PurePool α)
    (h : pureRun v [] ops = some pool) :
    ∃ s t, run v State.init ops = some s ∧ run id State.init (ops.map (mapItem v)) = some t ∧
      s.handles.length = t.handles.length ∧
      ∀ i, Live pool i → ∃ hs ht, s.handles[i]? = some hs ∧ t.handles[i]? = some ht ∧
        abs t ht = (abs s hs).mapItems v ∧ (abs t ht).sums = (abs s hs).sums := by
  obtain ⟨s, hr, hl, hg⟩ := heap_refines_pure v ops pool h
  have h' := pureRun_map v v id (fun _ => rfl) ops h
  obtain ⟨t, hr', hl', hg'⟩ := heap_refines_pure id _ _ h'
  refine ⟨s, t, hr, hr', by rw [hl, hl']; simp [mapPool], ?_⟩
  intro i ⟨b, hb⟩
  obtain ⟨hs, s1, s2⟩ := hg i b hb
  obtain ⟨ht, t1, t2⟩ := hg' i _ (mapPool_get v hb)
  exact ⟨hs, ht, s1, t1, by rw [t2, s2], by rw [t2, s2]; rfl⟩

example := sums_forget Prod.snd exOps _ rfl

end Prtpy.HeapRefine

/-
`#print axioms` output observed (Lean 4.33.0):

'Prtpy.HeapRefine.heap_refines_pure' depends on axioms: [propext, Classical.choice, Quot.sound]
'Prtpy.HeapRefine.step_refines' depends on axioms: [propext, Classical.choice, Quot.sound]
'Prtpy.HeapRefine.run_refines' depends on axioms: [propext, Classical.choice, Quot.sound]
'Prtpy.HeapRefine.pure_consistent' depends on axioms: [propext, Quot.sound]
'Prtpy.HeapRefine.all_consistent' depends on axioms: [propext, Classical.choice, Quot.sound]
'Prtpy.HeapRefine.unwritten_unchanged' depends on axioms: [propext, Classical.choice, Quot.sound]
'Prtpy.HeapRefine.copy_independent' depends on axioms: [propext, Classical.choice, Quot.sound]
'Prtpy.HeapRefine.args_unmodified_alloc' depends on axioms: [propext, Quot.sound]
'Prtpy.HeapRefine.args_unmodified_combine' depends on axioms: [propext, Classical.choice, Quot.sound]
'Prtpy.HeapRefine.args_unmodified' depends on axioms: [propext, Classical.choice, Quot.sound]
'Prtpy.HeapRefine.pureRun_map' depends on axioms: [propext, Quot.sound]
'Prtpy.HeapRefine.sums_forget' depends on axioms: [propext, Classical.choice, Quot.sound]
-/
