/-
  PrtpyProofs.HeapRefine — C16 at the reference level: the heap model of the two bins-managers
  (`Prtpy.Heap`: numbered numpy buffers, numbered inner Python lists, numbered outer lists, handles
  that may alias) refines the pool of immutable `Bins α` values (`Heap.PurePool`, `Heap.pureStep`)
  as long as the hand-over discipline is respected.
-/
import Prtpy.Heap
import PrtpyProofs.BinsOps
open Prtpy

namespace Prtpy.HeapRefine

open Heap

variable {α : Type}

/-! ## Generic list helpers -/

section ListHelpers
variable {β : Type}

theorem getD_append_left (l l' : List β) (k : Nat) (d : β) (h : k < l.length) :
    (l ++ l').getD k d = l.getD k d := by
  simp only [List.getD_eq_getElem?_getD, List.getElem?_append_left h]

theorem getD_append_length (l l' : List β) (k : Nat) (d : β) :
    (l ++ l').getD (k + l.length) d = l'.getD k d := by
  simp only [List.getD_eq_getElem?_getD]
  rw [List.getElem?_append_right (by omega)]
  congr 2; omega

theorem getD_append_self (l : List β) (x d : β) : (l ++ [x]).getD l.length d = x := by
  simp [List.getD_eq_getElem?_getD]

theorem getD_modify_ne (l : List β) (f : β → β) (i j : Nat) (d : β) (h : i ≠ j) :
    (l.modify i f).getD j d = l.getD j d := by
  simp only [List.getD_eq_getElem?_getD, List.getElem?_modify_ne f l h]

theorem getD_modify_eq (l : List β) (f : β → β) (i : Nat) (d : β) (h : i < l.length) :
    (l.modify i f).getD i d = f (l.getD i d) := by
  simp only [List.getD_eq_getElem?_getD, List.getElem?_modify_eq, List.getElem?_eq_getElem h]
  rfl

theorem getD_of_lt (l : List β) (i : Nat) (d : β) (h : i < l.length) : l.getD i d = l[i] := by
  simp only [List.getD_eq_getElem?_getD, List.getElem?_eq_getElem h, Option.getD_some]

theorem nodup_getElem_inj {l : List β} (hn : l.Nodup) {i j : Nat} (hi : i < l.length) (hj : j < l.length)
    (e : l[i] = l[j]) : i = j := by
  rw [List.nodup_iff_pairwise_ne, List.pairwise_iff_getElem] at hn
  rcases Nat.lt_trichotomy i j with h | h | h
  · exact absurd e (hn i j hi hj h)
  · exact h
  · exact absurd e.symm (hn j i hj hi h)

/-- Reading back freshly appended cells through their (shifted) indices. -/
theorem map_range_getD_append (pre l : List β) (d : β) :
    ((List.range l.length).map (· + pre.length)).map (fun id => (pre ++ l).getD id d) = l := by
  apply List.ext_getElem?
  intro i
  simp only [List.map_map, List.getElem?_map]
  by_cases hi : i < l.length
  · rw [List.getElem?_range hi]
    simp only [Option.map_some, Function.comp, getD_append_length, getD_of_lt l i d hi,
      List.getElem?_eq_getElem hi]
  · rw [List.getElem?_eq_none (by simpa using hi), List.getElem?_eq_none (by simpa using hi)]
    rfl

theorem nodup_range_shift (n base : Nat) : ((List.range n).map (· + base)).Nodup := by
  rw [List.nodup_iff_pairwise_ne, List.pairwise_map]
  have := @List.nodup_range n
  rw [List.nodup_iff_pairwise_ne] at this
  exact this.imp (fun h e => h (by omega))

theorem mem_range_shift {n base id : Nat} (h : id ∈ (List.range n).map (· + base)) :
    base ≤ id ∧ id < base + n := by
  simp only [List.mem_map, List.mem_range] at h
  obtain ⟨a, ha, rfl⟩ := h
  omega

/-- Reading a `Nodup` list of cell ids after modifying the cell at position `i`. -/
theorem map_getD_modify_nodup (cells : List β) (ids : List Nat) (g : β → β) (d : β) (i : Nat)
    (hn : ids.Nodup) (hi : i < ids.length) (hv : ids[i] < cells.length) :
    ids.map (fun id => (cells.modify ids[i] g).getD id d)
      = (ids.map (fun id => cells.getD id d)).modify i g := by
  apply List.ext_getElem?
  intro j
  rw [List.getElem?_modify, List.getElem?_map, List.getElem?_map]
  by_cases hj : j < ids.length
  · rw [List.getElem?_eq_getElem hj]
    simp only [Option.map_some, Option.map_eq_map]
    by_cases e : i = j
    · subst e
      simp only [if_true, getD_modify_eq _ _ _ _ hv]
    · have : ids[i] ≠ ids[j] := fun e' => e (nodup_getElem_inj hn hi hj e')
      simp only [if_neg e, getD_modify_ne _ _ _ _ _ this]
  · rw [List.getElem?_eq_none (by omega)]; rfl

end ListHelpers

/-! ## The simulation invariant -/

/-- the inner-list ids of a handle -/
def ids (s : State α) (h : Handle) : List Nat := s.outers.getD h.outer []

/-- a handle whose ids are all allocated -/
structure Valid (s : State α) (h : Handle) : Prop where
  buf_lt : h.buf < s.bufs.length
  outer_lt : h.outer < s.outers.length
  ids_lt : ∀ id ∈ ids s h, id < s.inners.length

/-- a well-formed handle: allocated ids, a prefix view of its buffer, one distinct inner list per bin -/
structure Good (s : State α) (h : Handle) : Prop extends Valid s h where
  len_le : h.len ≤ (s.bufs.getD h.buf []).length
  ids_len : (ids s h).length = h.len
  nodup : (ids s h).Nodup

/-- separation of two handles: different buffers, different outer lists, disjoint inner lists -/
structure Sep (s : State α) (a b : Handle) : Prop where
  buf : a.buf ≠ b.buf
  outer : a.outer ≠ b.outer
  disj : ∀ id, id ∈ ids s a → id ∈ ids s b → False

theorem Sep.symm {s : State α} {a b : Handle} (h : Sep s a b) : Sep s b a :=
  ⟨h.buf.symm, h.outer.symm, fun id hb ha => h.disj id ha hb⟩

def Live (p : PurePool α) (i : Nat) : Prop := ∃ b, p[i]? = some (some b)

/-- The simulation invariant between a heap state and a pure pool. -/
structure Inv (s : State α) (p : PurePool α) : Prop where
  len : s.handles.length = p.length
  good : ∀ (i : Nat) (b : Bins α), p[i]? = some (some b) → ∃ hd, s.handles[i]? = some hd ∧ Good s hd ∧ abs s hd = b
  sep : ∀ (i j : Nat) (hi hj : Handle), i ≠ j → Live p i → Live p j → s.handles[i]? = some hi → s.handles[j]? = some hj →
    Sep s hi hj

theorem inv_init : Inv (State.init : State α) [] :=
  ⟨rfl, fun i b h => by simp at h, fun i j _ _ _ h => by obtain ⟨b, hb⟩ := h; simp at hb⟩

/-- Handles may die at any time: the invariant only speaks about live handles. -/
theorem Inv.weaken {s : State α} {p q : PurePool α} (h : Inv s p) (hl : q.length = p.length)
    (hq : ∀ (i : Nat) (b : Bins α), q[i]? = some (some b) → p[i]? = some (some b)) : Inv s q :=
  ⟨h.len.trans hl.symm, fun i b hb => h.good i b (hq i b hb),
   fun i j hi hj ne ⟨bi, li⟩ ⟨bj, lj⟩ => h.sep i j hi hj ne ⟨bi, hq i bi li⟩ ⟨bj, hq j bj lj⟩⟩

theorem kill_length (p : PurePool α) (h : Nat) : (kill p h).length = p.length := by
  simp [kill]

theorem kill_live (p : PurePool α) (h i : Nat) (b : Bins α) (hb : (kill p h)[i]? = some (some b)) :
    p[i]? = some (some b) ∧ i ≠ h := by
  unfold kill at hb
  rw [List.getElem?_set] at hb
  by_cases e : h = i
  · subst e; simp only [if_true] at hb; split at hb <;> simp at hb
  · simp only [if_neg e] at hb; exact ⟨hb, fun e' => e e'.symm⟩

theorem live_eq {p : PurePool α} {h : Nat} {b : Bins α} (hl : live p h = some b) :
    p[h]? = some (some b) := by
  unfold live at hl
  cases hp : p[h]? with
  | none => simp [hp] at hl
  | some o => simp only [hp, Option.join_some] at hl; rw [hl]

/-! ## Frame lemmas -/

/-- `s'` is obtained from `s` by appending cells and one handle -/
structure Ext (s s' : State α) (h' : Handle) : Prop where
  handles : s'.handles = s.handles ++ [h']
  bufs : ∃ x, s'.bufs = s.bufs ++ x
  inners : ∃ x, s'.inners = s.inners ++ x
  outers : ∃ x, s'.outers = s.outers ++ x

theorem Ext.ids_eq {s s' : State α} {h' : Handle} (e : Ext s s' h') {h : Handle} (hv : h.outer < s.outers.length) :
    ids s' h = ids s h := by
  obtain ⟨x, hx⟩ := e.outers
  simp only [ids, hx, getD_append_left _ _ _ _ hv]

theorem Ext.abs_eq {s s' : State α} {h' : Handle} (e : Ext s s' h') {h : Handle} (hv : Valid s h) :
    abs s' h = abs s h := by
  obtain ⟨xb, hb⟩ := e.bufs
  obtain ⟨xi, hi⟩ := e.inners
  have hids := e.ids_eq hv.outer_lt
  unfold ids at hids
  simp only [abs, hids, hb, getD_append_left _ _ _ _ hv.buf_lt, Bins.mk.injEq, true_and]
  apply List.map_congr_left
  intro id hid
  rw [hi, getD_append_left _ _ _ _ (hv.ids_lt id hid)]

theorem Ext.valid {s s' : State α} {h' : Handle} (e : Ext s s' h') {h : Handle} (hv : Valid s h) :
    Valid s' h := by
  obtain ⟨xb, hb⟩ := e.bufs
  obtain ⟨xi, hi⟩ := e.inners
  obtain ⟨xo, ho⟩ := e.outers
  refine ⟨?_, ?_, ?_⟩
  · rw [hb, List.length_append]; have := hv.buf_lt; omega
  · rw [ho, List.length_append]; have := hv.outer_lt; omega
  · intro id hid
    rw [e.ids_eq hv.outer_lt] at hid
    rw [hi, List.length_append]; have := hv.ids_lt id hid; omega

theorem Ext.good {s s' : State α} {h' : Handle} (e : Ext s s' h') {h : Handle} (hg : Good s h) :
    Good s' h := by
  obtain ⟨xb, hb⟩ := e.bufs
  refine ⟨e.valid hg.toValid, ?_, ?_, ?_⟩
  · rw [hb, getD_append_left _ _ _ _ hg.buf_lt]; exact hg.len_le
  · rw [e.ids_eq hg.outer_lt]; exact hg.ids_len
  · rw [e.ids_eq hg.outer_lt]; exact hg.nodup

theorem Ext.sep {s s' : State α} {h' : Handle} (e : Ext s s' h') {a b : Handle} (ha : Valid s a)
    (hb : Valid s b) (hs : Sep s a b) : Sep s' a b :=
  ⟨hs.buf, hs.outer, by rw [e.ids_eq ha.outer_lt, e.ids_eq hb.outer_lt]; exact hs.disj⟩

/-- Generic preservation lemma for the allocating operations. -/
theorem Inv.extend {s s' : State α} {q : PurePool α} {h' : Handle} {b' : Bins α} (h : Inv s q)
    (e : Ext s s' h') (hg : Good s' h') (ha : abs s' h' = b')
    (hsep : ∀ j hj, Live q j → s.handles[j]? = some hj → Sep s' hj h') :
    Inv s' (q ++ [some b']) := by
  have hlen := h.len
  -- live handles of the new pool
  have cases : ∀ i b, (q ++ [some b'])[i]? = some (some b) →
      (i < q.length ∧ q[i]? = some (some b)) ∨ (i = q.length ∧ b = b') := by
    intro i b hb
    rw [List.getElem?_append] at hb
    split at hb
    · exact Or.inl ⟨by assumption, hb⟩
    · rename_i hi
      by_cases e : i = q.length
      · right; subst e; simp at hb; exact ⟨rfl, hb.symm⟩
      · rw [List.getElem?_eq_none (by simp; omega)] at hb; simp at hb
  have hnew : s'.handles[q.length]? = some h' := by
    rw [e.handles, ← hlen]; simp
  have hold : ∀ i, i < q.length → s'.handles[i]? = s.handles[i]? := by
    intro i hi; rw [e.handles, List.getElem?_append_left (by omega)]
  refine ⟨?_, ?_, ?_⟩
  · rw [e.handles]; simp [hlen]
  · intro i b hb
    rcases cases i b hb with ⟨hi, hq⟩ | ⟨rfl, rfl⟩
    · obtain ⟨hd, h1, h2, h3⟩ := h.good i b hq
      exact ⟨hd, by rw [hold i hi, h1], e.good h2, by rw [e.abs_eq h2.toValid, h3]⟩
    · exact ⟨h', hnew, hg, ha⟩
  · intro i j hi hj ne ⟨bi, li⟩ ⟨bj, lj⟩ gi gj
    rcases cases i bi li with ⟨hi', qi⟩ | ⟨rfl, rfl⟩
    · rw [hold i hi'] at gi
      rcases cases j bj lj with ⟨hj', qj⟩ | ⟨rfl, rfl⟩
      · rw [hold j hj'] at gj
        obtain ⟨_, h1, h2, _⟩ := h.good i bi qi
        obtain ⟨_, h1', h2', _⟩ := h.good j bj qj
        rw [gi] at h1; cases h1
        rw [gj] at h1'; cases h1'
        exact e.sep h2.toValid h2'.toValid (h.sep i j hi hj ne ⟨bi, qi⟩ ⟨bj, qj⟩ gi gj)
      · rw [hnew] at gj; cases gj
        exact hsep i hi ⟨bi, qi⟩ gi
    · rw [hnew] at gi; cases gi
      rcases cases j bj lj with ⟨hj', qj⟩ | ⟨rfl, rfl⟩
      · rw [hold j hj'] at gj
        exact (hsep j hj ⟨bj, qj⟩ gj).symm
      · exact absurd rfl ne

/-! ## Allocation of a fully fresh handle (`new_bins`, `copy_bins`) -/

theorem alloc_ext (s : State α) (sums : List Nat) (lists : List (List α)) :
    Ext s (alloc s sums lists).1 (alloc s sums lists).2 :=
  ⟨rfl, ⟨_, rfl⟩, ⟨_, rfl⟩, ⟨_, rfl⟩⟩

theorem alloc_ids (s : State α) (sums : List Nat) (lists : List (List α)) :
    ids (alloc s sums lists).1 (alloc s sums lists).2
      = (List.range lists.length).map (· + s.inners.length) := by
  simp only [ids, alloc, getD_append_self]

theorem alloc_abs (s : State α) (sums : List Nat) (lists : List (List α)) :
    abs (alloc s sums lists).1 (alloc s sums lists).2 = ⟨sums, lists⟩ := by
  have h := alloc_ids s sums lists
  unfold ids at h
  unfold abs
  rw [h]
  simp only [alloc, getD_append_self, List.take_length, map_range_getD_append]

theorem alloc_good (s : State α) (sums : List Nat) (lists : List (List α))
    (hl : sums.length = lists.length) : Good (alloc s sums lists).1 (alloc s sums lists).2 := by
  refine ⟨⟨?_, ?_, ?_⟩, ?_, ?_, ?_⟩
  · simp [alloc]
  · simp [alloc]
  · intro id hid
    rw [alloc_ids] at hid
    have := mem_range_shift hid
    simp only [alloc, List.length_append]; omega
  · simp only [alloc, getD_append_self]; exact Nat.le_refl _
  · rw [alloc_ids]; simp [alloc, hl]
  · rw [alloc_ids]; exact nodup_range_shift _ _

theorem alloc_sep (s : State α) (sums : List Nat) (lists : List (List α)) {hj : Handle}
    (hv : Valid s hj) : Sep (alloc s sums lists).1 hj (alloc s sums lists).2 := by
  refine ⟨?_, ?_, ?_⟩
  · have := hv.buf_lt; simp only [alloc]; omega
  · have := hv.outer_lt; simp only [alloc]; omega
  · intro id h1 h2
    rw [(alloc_ext s sums lists).ids_eq hv.outer_lt] at h1
    rw [alloc_ids] at h2
    have := mem_range_shift h2
    have := hv.ids_lt id h1
    omega

theorem Inv.alloc {s : State α} {p : PurePool α} (h : Inv s p) (sums : List Nat) (lists : List (List α))
    (hl : sums.length = lists.length) : Inv (alloc s sums lists).1 (p ++ [some ⟨sums, lists⟩]) := by
  refine h.extend (alloc_ext s sums lists) (alloc_good s sums lists hl) (alloc_abs s sums lists) ?_
  intro j hj ⟨b, hb⟩ hh
  obtain ⟨hd, h1, h2, _⟩ := h.good j b hb
  rw [hh] at h1; cases h1
  exact alloc_sep s sums lists h2.toValid

/-- lengths of the two components of what a good handle denotes -/
theorem Good.sums_length {s : State α} {h : Handle} (hg : Good s h) : (abs s h).sums.length = h.len := by
  simp only [abs, List.length_take]; have := hg.len_le; omega

theorem Good.lists_length {s : State α} {h : Handle} (hg : Good s h) : (abs s h).lists.length = h.len := by
  simp only [abs, List.length_map]; exact hg.ids_len

variable (v : α → Nat)

theorem step_new {s : State α} {p : PurePool α} (h : Inv s p) (k : Nat) :
    ∃ s', step v s (.new k) = some s' ∧ Inv s' (p ++ [some (Bins.new k)]) :=
  ⟨_, rfl, h.alloc _ _ (by simp)⟩

theorem step_copy {s : State α} {p : PurePool α} (h : Inv s p) (hi : Nat) (b : Bins α)
    (hb : p[hi]? = some (some b)) :
    ∃ s', step v s (.copy hi) = some s' ∧ Inv s' (p ++ [some b]) := by
  obtain ⟨hd, h1, h2, h3⟩ := h.good hi b hb
  refine ⟨(alloc s (abs s hd).sums (abs s hd).lists).1, ?_, ?_⟩
  · simp only [step, h1, Option.bind_eq_bind, Option.bind_some]
  · have := h.alloc (abs s hd).sums (abs s hd).lists (by rw [h2.sums_length, h2.lists_length])
    rw [← h3]; exact this

/-! ## Allocation of a handle that shares inner lists (`add_empty_bins`, `concatenate_bins`) -/

/-- the state after `extra` new inner lists and a new handle with buffer `sums` and inner ids `idl` -/
def sh (s : State α) (extra : List (List α)) (sums : List Nat) (idl : List Nat) : State α :=
  allocShared { s with inners := s.inners ++ extra } sums idl

def shH (s : State α) (sums : List Nat) : Handle := ⟨s.bufs.length, sums.length, s.outers.length⟩

theorem sh_nil (s : State α) (sums : List Nat) (idl : List Nat) : allocShared s sums idl = sh s [] sums idl := by
  simp [sh]

theorem sh_ext (s : State α) (extra : List (List α)) (sums : List Nat) (idl : List Nat) :
    Ext s (sh s extra sums idl) (shH s sums) :=
  ⟨rfl, ⟨_, rfl⟩, ⟨_, rfl⟩, ⟨_, rfl⟩⟩

theorem sh_ids (s : State α) (extra : List (List α)) (sums : List Nat) (idl : List Nat) :
    ids (sh s extra sums idl) (shH s sums) = idl := by
  simp only [ids, sh, shH, allocShared, getD_append_self]

theorem sh_abs (s : State α) (extra : List (List α)) (sums : List Nat) (idl : List Nat) :
    abs (sh s extra sums idl) (shH s sums)
      = ⟨sums, idl.map (fun id => (s.inners ++ extra).getD id [])⟩ := by
  have h := sh_ids s extra sums idl
  unfold ids at h
  unfold abs
  rw [h]
  simp only [sh, shH, allocShared, getD_append_self, List.take_length]

theorem sh_good (s : State α) (extra : List (List α)) (sums : List Nat) (idl : List Nat)
    (hl : idl.length = sums.length) (hn : idl.Nodup)
    (hv : ∀ id ∈ idl, id < s.inners.length + extra.length) :
    Good (sh s extra sums idl) (shH s sums) := by
  refine ⟨⟨?_, ?_, ?_⟩, ?_, ?_, ?_⟩
  · simp [sh, shH, allocShared]
  · simp [sh, shH, allocShared]
  · intro id hid
    rw [sh_ids] at hid
    have := hv id hid
    simp only [sh, allocShared, List.length_append]; omega
  · simp only [sh, shH, allocShared, getD_append_self]; exact Nat.le_refl _
  · rw [sh_ids]; exact hl
  · rw [sh_ids]; exact hn

theorem sh_sep (s : State α) (extra : List (List α)) (sums : List Nat) (idl : List Nat) {hj : Handle}
    (hv : Valid s hj) (hd : ∀ id, id ∈ ids s hj → id ∈ idl → False) :
    Sep (sh s extra sums idl) hj (shH s sums) := by
  refine ⟨?_, ?_, ?_⟩
  · have := hv.buf_lt; simp only [shH]; omega
  · have := hv.outer_lt; simp only [shH]; omega
  · intro id h1 h2
    rw [(sh_ext s extra sums idl).ids_eq hv.outer_lt] at h1
    rw [sh_ids] at h2
    exact hd id h1 h2

theorem step_addEmpty {s : State α} {p : PurePool α} (h : Inv s p) (hi n : Nat) (b : Bins α)
    (hb : p[hi]? = some (some b)) :
    ∃ s', step v s (.addEmpty hi n) = some s' ∧ Inv s' (kill p hi ++ [some (b.addEmpty n)]) := by
  obtain ⟨hd, h1, h2, h3⟩ := h.good hi b hb
  let newIds := (List.range n).map (· + s.inners.length)
  refine ⟨sh s (List.replicate n []) ((abs s hd).sums ++ List.replicate n 0) (ids s hd ++ newIds), ?_, ?_⟩
  · simp only [step, h1, Option.bind_eq_bind, Option.bind_some]; rfl
  · have hq : Inv s (kill p hi) := h.weaken (kill_length p hi) (fun i b hb => (kill_live p hi i b hb).1)
    refine hq.extend (sh_ext _ _ _ _) (sh_good _ _ _ _ ?_ ?_ ?_) ?_ ?_
    · simp [newIds, h2.ids_len, h2.sums_length]
    · rw [List.nodup_append]
      refine ⟨h2.nodup, nodup_range_shift _ _, ?_⟩
      intro a ha c hc e
      subst e
      have := h2.ids_lt a ha
      have := mem_range_shift hc
      omega
    · intro id hid
      rcases List.mem_append.1 hid with hid | hid
      · have := h2.ids_lt id hid; omega
      · have := mem_range_shift hid; simp at this ⊢; omega
    · rw [sh_abs, ← h3]
      simp only [Bins.addEmpty, Bins.concat, Bins.new, List.map_append, Bins.mk.injEq, true_and]
      congr 1
      · simp only [abs]
        apply List.map_congr_left
        intro id hid
        exact getD_append_left _ _ _ _ (h2.ids_lt id hid)
      · have := map_range_getD_append s.inners (List.replicate n ([] : List α)) []
        simpa [newIds] using this
    · intro j hj ⟨bj, lj⟩ gj
      obtain ⟨lj', ne⟩ := kill_live p hi j bj lj
      obtain ⟨hd', g1, g2, _⟩ := h.good j bj lj'
      rw [gj] at g1; cases g1
      have hs := h.sep j hi hj hd ne ⟨bj, lj'⟩ ⟨b, hb⟩ gj h1
      apply sh_sep _ _ _ _ g2.toValid
      intro id i1 i2
      rcases List.mem_append.1 i2 with i2 | i2
      · exact hs.disj id i1 i2
      · have := g2.ids_lt id i1
        have := mem_range_shift i2
        omega

theorem step_concat {s : State α} {p : PurePool α} (h : Inv s p) (i1 i2 : Nat) (b1 b2 : Bins α)
    (hb1 : p[i1]? = some (some b1)) (hb2 : p[i2]? = some (some b2)) (ne : i1 ≠ i2) :
    ∃ s', step v s (.concat i1 i2) = some s' ∧
      Inv s' (kill (kill p i1) i2 ++ [some (b1.concat b2)]) := by
  obtain ⟨a, a1, a2, a3⟩ := h.good i1 b1 hb1
  obtain ⟨c, c1, c2, c3⟩ := h.good i2 b2 hb2
  have hs := h.sep i1 i2 a c ne ⟨b1, hb1⟩ ⟨b2, hb2⟩ a1 c1
  refine ⟨sh s [] ((abs s a).sums ++ (abs s c).sums) (ids s a ++ ids s c), ?_, ?_⟩
  · simp only [step, a1, c1, Option.bind_eq_bind, Option.bind_some, sh_nil]; rfl
  · have hq : Inv s (kill (kill p i1) i2) :=
      h.weaken (by simp [kill_length])
        (fun i b hb => (kill_live p i1 i b (kill_live _ i2 i b hb).1).1)
    refine hq.extend (sh_ext _ _ _ _) (sh_good _ _ _ _ ?_ ?_ ?_) ?_ ?_
    · simp [a2.ids_len, c2.ids_len, a2.sums_length, c2.sums_length]
    · rw [List.nodup_append]
      refine ⟨a2.nodup, c2.nodup, ?_⟩
      intro x hx y hy e
      subst e
      exact hs.disj x hx hy
    · intro id hid
      rcases List.mem_append.1 hid with hid | hid
      · have := a2.ids_lt id hid; simp; omega
      · have := c2.ids_lt id hid; simp; omega
    · rw [sh_abs, ← a3, ← c3]
      simp only [Bins.concat, List.map_append, List.append_nil, Bins.mk.injEq, true_and]
      rfl
    · intro j hj ⟨bj, lj⟩ gj
      obtain ⟨lj1, ne2⟩ := kill_live _ i2 j bj lj
      obtain ⟨lj', ne1⟩ := kill_live p i1 j bj lj1
      obtain ⟨hd', g1, g2, _⟩ := h.good j bj lj'
      rw [gj] at g1; cases g1
      have hs1 := h.sep j i1 hj a ne1 ⟨bj, lj'⟩ ⟨b1, hb1⟩ gj a1
      have hs2 := h.sep j i2 hj c ne2 ⟨bj, lj'⟩ ⟨b2, hb2⟩ gj c1
      apply sh_sep _ _ _ _ g2.toValid
      intro id k1 k2
      rcases List.mem_append.1 k2 with k2 | k2
      · exact hs1.disj id k1 k2
      · exact hs2.disj id k1 k2

/-! ## `remove_bins`: a shorter view of the same buffer, a new outer list sharing the inner lists -/

def rm (s : State α) (a : Handle) (n : Nat) : State α :=
  { s with outers := s.outers ++ [(ids s a).take ((ids s a).length - n)],
           handles := s.handles ++ [⟨a.buf, a.len - n, s.outers.length⟩] }

def rmH (s : State α) (a : Handle) (n : Nat) : Handle := ⟨a.buf, a.len - n, s.outers.length⟩

theorem rm_ext (s : State α) (a : Handle) (n : Nat) : Ext s (rm s a n) (rmH s a n) :=
  ⟨rfl, ⟨[], by simp [rm]⟩, ⟨[], by simp [rm]⟩, ⟨_, rfl⟩⟩

theorem rm_ids (s : State α) (a : Handle) (n : Nat) :
    ids (rm s a n) (rmH s a n) = (ids s a).take ((ids s a).length - n) := by
  simp only [ids, rm, rmH, getD_append_self]

theorem step_remove {s : State α} {p : PurePool α} (h : Inv s p) (hi n : Nat) (b : Bins α)
    (hb : p[hi]? = some (some b)) (hn : n ≤ b.sums.length) :
    ∃ s', step v s (.remove hi n) = some s' ∧ Inv s' (kill p hi ++ [some (b.removeLast n)]) := by
  obtain ⟨a, a1, a2, a3⟩ := h.good hi b hb
  have hn' : n ≤ a.len := by rw [← a2.sums_length, a3]; exact hn
  refine ⟨rm s a n, ?_, ?_⟩
  · simp only [step, a1, Option.bind_eq_bind, Option.bind_some, if_pos hn']; rfl
  · have hq : Inv s (kill p hi) := h.weaken (kill_length p hi) (fun i b hb => (kill_live p hi i b hb).1)
    have hidl := rm_ids s a n
    refine hq.extend (rm_ext s a n) ⟨⟨?_, ?_, ?_⟩, ?_, ?_, ?_⟩ ?_ ?_
    · exact a2.buf_lt
    · simp [rm, rmH]
    · intro id hid
      rw [hidl] at hid
      exact a2.ids_lt id (List.mem_of_mem_take hid)
    · have := a2.len_le
      simp only [rm, rmH]; omega
    · rw [hidl, List.length_take, a2.ids_len]; simp only [rmH]; omega
    · rw [hidl]; exact List.Sublist.nodup (List.take_sublist _ _) a2.nodup
    · have hidl' := hidl
      unfold ids at hidl'
      rw [← a3]
      unfold abs
      rw [hidl']
      simp only [Bins.removeLast, Bins.mk.injEq]
      constructor
      · have e1 := a2.sums_length
        simp only [abs] at e1
        rw [e1, List.take_take]
        simp only [rm, rmH]
        congr 1; omega
      · simp only [rm, List.map_take, List.length_map]
    · intro j hj ⟨bj, lj⟩ gj
      obtain ⟨lj', ne⟩ := kill_live p hi j bj lj
      obtain ⟨hd', g1, g2, _⟩ := h.good j bj lj'
      rw [gj] at g1; cases g1
      have hs := h.sep j hi hj a ne ⟨bj, lj'⟩ ⟨b, hb⟩ gj a1
      refine ⟨hs.buf, ?_, ?_⟩
      · have := g2.outer_lt; simp only [rmH]; omega
      · intro id k1 k2
        rw [(rm_ext s a n).ids_eq g2.outer_lt] at k1
        rw [hidl] at k2
        exact hs.disj id k1 (List.mem_of_mem_take k2)

/-! ## In-place operations: only cells owned by one handle `a` change -/

structure Frame (s s' : State α) (a : Handle) : Prop where
  handles : s'.handles = s.handles
  bufs_len : s'.bufs.length = s.bufs.length
  inners_len : s'.inners.length = s.inners.length
  outers_len : s'.outers.length = s.outers.length
  bufs : ∀ k, k ≠ a.buf → s'.bufs.getD k [] = s.bufs.getD k []
  outers : ∀ k, k ≠ a.outer → s'.outers.getD k [] = s.outers.getD k []
  inners : ∀ k, k ∉ ids s a → s'.inners.getD k [] = s.inners.getD k []
  ids_mem : ∀ k, k ∈ ids s' a ↔ k ∈ ids s a

theorem Frame.ids_eq {s s' : State α} {a : Handle} (f : Frame s s' a) {h : Handle} (ho : h.outer ≠ a.outer) :
    ids s' h = ids s h := f.outers _ ho

/-- A handle separated from `a` denotes the same value before and after. -/
theorem Frame.abs_eq {s s' : State α} {a : Handle} (f : Frame s s' a) {h : Handle} (hs : Sep s h a) :
    abs s' h = abs s h := by
  have hids := f.ids_eq hs.outer
  unfold ids at hids
  simp only [abs, hids, f.bufs _ hs.buf, Bins.mk.injEq, true_and]
  apply List.map_congr_left
  intro id hid
  exact f.inners id (fun h' => hs.disj id hid h')

theorem Frame.good {s s' : State α} {a : Handle} (f : Frame s s' a) {h : Handle} (hs : Sep s h a)
    (hg : Good s h) : Good s' h := by
  have hids := f.ids_eq hs.outer
  refine ⟨⟨?_, ?_, ?_⟩, ?_, ?_, ?_⟩
  · rw [f.bufs_len]; exact hg.buf_lt
  · rw [f.outers_len]; exact hg.outer_lt
  · rw [hids, f.inners_len]; exact hg.ids_lt
  · rw [f.bufs _ hs.buf]; exact hg.len_le
  · rw [hids]; exact hg.ids_len
  · rw [hids]; exact hg.nodup

theorem Frame.sep_a {s s' : State α} {a : Handle} (f : Frame s s' a) {h : Handle} (hs : Sep s h a) :
    Sep s' h a :=
  ⟨hs.buf, hs.outer, fun id h1 h2 => by
    rw [f.ids_eq hs.outer] at h1
    exact hs.disj id h1 ((f.ids_mem id).1 h2)⟩

theorem Frame.sep {s s' : State α} {a : Handle} (f : Frame s s' a) {x y : Handle} (hx : Sep s x a)
    (hy : Sep s y a) (hs : Sep s x y) : Sep s' x y :=
  ⟨hs.buf, hs.outer, by rw [f.ids_eq hx.outer, f.ids_eq hy.outer]; exact hs.disj⟩

theorem set_live {p : PurePool α} {h i : Nat} {b' bi : Bins α}
    (hb : (p.set h (some b'))[i]? = some (some bi)) :
    (i = h ∧ bi = b') ∨ (i ≠ h ∧ p[i]? = some (some bi)) := by
  rw [List.getElem?_set] at hb
  by_cases e : h = i
  · subst e
    simp only [if_true] at hb
    split at hb
    · left; simp at hb; exact ⟨rfl, hb.symm⟩
    · simp at hb
  · simp only [if_neg e] at hb
    exact Or.inr ⟨fun e' => e e'.symm, hb⟩

/-- Generic preservation lemma for the in-place operations. -/
theorem Inv.frame {s s' : State α} {p : PurePool α} {h : Nat} {a : Handle} {b b' : Bins α}
    (hinv : Inv s p) (hb : p[h]? = some (some b)) (ha : s.handles[h]? = some a) (f : Frame s s' a)
    (hg : Good s' a) (hab : abs s' a = b') : Inv s' (p.set h (some b')) := by
  have liveOld : ∀ i, Live (p.set h (some b')) i → Live p i := by
    intro i ⟨bi, li⟩
    rcases set_live li with ⟨rfl, _⟩ | ⟨_, l⟩
    · exact ⟨b, hb⟩
    · exact ⟨bi, l⟩
  have sepA : ∀ i hi, i ≠ h → Live p i → s.handles[i]? = some hi → Sep s hi a :=
    fun i hi ne l g => hinv.sep i h hi a ne l ⟨b, hb⟩ g ha
  refine ⟨?_, ?_, ?_⟩
  · rw [f.handles, hinv.len]; simp
  · intro i bi li
    rw [f.handles]
    rcases set_live li with ⟨rfl, rfl⟩ | ⟨ne, l⟩
    · exact ⟨a, ha, hg, hab⟩
    · obtain ⟨hd, h1, h2, h3⟩ := hinv.good i bi l
      have hs := sepA i hd ne ⟨bi, l⟩ h1
      exact ⟨hd, h1, f.good hs h2, by rw [f.abs_eq hs, h3]⟩
  · intro i j hi hj ne li lj gi gj
    rw [f.handles] at gi gj
    have li' := liveOld i li
    have lj' := liveOld j lj
    have hs := hinv.sep i j hi hj ne li' lj' gi gj
    by_cases ei : i = h
    · subst ei
      rw [ha] at gi; cases gi
      exact (f.sep_a hs.symm).symm
    · by_cases ej : j = h
      · subst ej
        rw [ha] at gj; cases gj
        exact f.sep_a hs
      · exact f.sep (sepA i hi ei li' gi) (sepA j hj ej lj' gj) hs

/-! ### `add_item_to_bin` and `combine_bins`: one buffer cell and one inner list change -/

def upd (s : State α) (a : Handle) (i c : Nat) (ex : List α) : State α :=
  { s with bufs := s.bufs.modify a.buf (·.modify i (· + c)),
           inners := s.inners.modify ((ids s a).getD i 0) (· ++ ex) }

theorem upd_frame {s : State α} {a : Handle} (hg : Good s a) (i c : Nat) (ex : List α) (hi : i < a.len) :
    Frame s (upd s a i c ex) a := by
  have hi' : i < (ids s a).length := by rw [hg.ids_len]; exact hi
  refine ⟨rfl, ?_, ?_, rfl, ?_, ?_, ?_, ?_⟩
  · simp [upd]
  · simp [upd]
  · intro k hk; exact getD_modify_ne _ _ _ _ _ hk.symm
  · intro k _; rfl
  · intro k hk
    apply getD_modify_ne
    intro e
    apply hk
    rw [← e, getD_of_lt _ _ _ hi']
    exact List.getElem_mem hi'
  · intro k; exact Iff.rfl

theorem upd_abs {s : State α} {a : Handle} (hg : Good s a) (i c : Nat) (ex : List α) (hi : i < a.len) :
    abs (upd s a i c ex) a = ⟨(abs s a).sums.modify i (· + c), (abs s a).lists.modify i (· ++ ex)⟩ := by
  have hi' : i < (ids s a).length := by rw [hg.ids_len]; exact hi
  have e0 : (ids s a).getD i 0 = (ids s a)[i] := getD_of_lt _ _ _ hi'
  have hv : (ids s a)[i] < s.inners.length := hg.ids_lt _ (List.getElem_mem hi')
  have key := map_getD_modify_nodup s.inners (ids s a) (· ++ ex) [] i hg.nodup hi' hv
  simp only [abs, upd, e0, getD_modify_eq _ _ _ _ hg.buf_lt, List.take_modify, Bins.mk.injEq, true_and]
  exact key

theorem upd_good {s : State α} {a : Handle} (hg : Good s a) (i c : Nat) (ex : List α) :
    Good (upd s a i c ex) a := by
  refine ⟨⟨?_, ?_, ?_⟩, ?_, ?_, ?_⟩
  · simp only [upd, List.length_modify]; exact hg.buf_lt
  · exact hg.outer_lt
  · intro id hid
    simp only [upd, List.length_modify]; exact hg.ids_lt id hid
  · simp only [upd, getD_modify_eq _ _ _ _ hg.buf_lt, List.length_modify]; exact hg.len_le
  · exact hg.ids_len
  · exact hg.nodup

theorem step_add {s : State α} {p : PurePool α} (h : Inv s p) (hi : Nat) (x : α) (i : Nat) (b : Bins α)
    (hb : p[hi]? = some (some b)) (hlt : i < b.sums.length) :
    ∃ s', step v s (.add hi x i) = some s' ∧ Inv s' (p.set hi (some (b.add v x i))) := by
  obtain ⟨a, a1, a2, a3⟩ := h.good hi b hb
  have hlt' : i < a.len := by rw [← a2.sums_length, a3]; exact hlt
  refine ⟨upd s a i (v x) [x], ?_, ?_⟩
  · simp only [step, a1, Option.bind_eq_bind, Option.bind_some, if_pos hlt']; rfl
  · refine h.frame hb a1 (upd_frame a2 i _ _ hlt') (upd_good a2 i _ _) ?_
    rw [upd_abs a2 i _ _ hlt', a3]; rfl

theorem step_combine {s : State α} {p : PurePool α} (h : Inv s p) (h1 i1 h2 i2 : Nat) (b1 b2 : Bins α)
    (hb1 : p[h1]? = some (some b1)) (hb2 : p[h2]? = some (some b2))
    (hlt : i1 < b1.sums.length ∧ i2 < b2.sums.length) :
    ∃ s', step v s (.combine h1 i1 h2 i2) = some s' ∧
      Inv s' (p.set h1 (some (b1.combine i1 b2 i2))) := by
  obtain ⟨a, a1, a2, a3⟩ := h.good h1 b1 hb1
  obtain ⟨c, c1, c2, c3⟩ := h.good h2 b2 hb2
  have hlt' : i1 < a.len ∧ i2 < c.len := by
    rw [← a2.sums_length, a3, ← c2.sums_length, c3]; exact hlt
  refine ⟨upd s a i1 ((abs s c).sums.getD i2 0) ((abs s c).lists.getD i2 []), ?_, ?_⟩
  · simp only [step, a1, c1, Option.bind_eq_bind, Option.bind_some, if_pos hlt']; rfl
  · refine h.frame hb1 a1 (upd_frame a2 i1 _ _ hlt'.1) (upd_good a2 i1 _ _) ?_
    rw [upd_abs a2 i1 _ _ hlt'.1, a3, c3]; rfl

end Prtpy.HeapRefine
