/-
  The traced recursive partitioners (Model/SNPTrace.lean: `snpT`, `rnpFT`) compute what `snp` / `rnpF` compute:
  the trace (and the Python-ordered copy `shown` of the items that fills it) is an observer.
-/
import Prtpy.Model.SNPTrace
namespace Prtpy
namespace SNPTrace
variable {α : Type}

/-- the traced tree walk, its trace dropped, is the tree walk of the body with its trace dropped -/
theorem treeFoldT_fst {σ : Type} (v : α → Nat) (den : Nat) (ub : Int) (lbOf : σ → Int)
    (bodyT : σ → List α → Except Err σ × STrace) (body : σ → List α → Except Err σ)
    (h : ∀ st sub, (bodyT st sub).1 = body st sub) :
    ∀ (rest : List α) (st : σ) (cur : List α),
      (treeFoldT v den ub lbOf bodyT st cur rest).1 = treeFold v den ub lbOf body st cur rest := by
  intro rest
  induction rest with
  | nil =>
    intro st cur
    simp only [treeFoldT, treeFold]
    split
    · rfl
    · exact h _ _
  | cons x xs ih =>
    intro st cur
    simp only [treeFoldT, treeFold]
    split
    · rfl
    · rw [← ih st (cur ++ [x])]
      rcases treeFoldT v den ub lbOf bodyT st (cur ++ [x]) xs with ⟨_ | st1, tr⟩
      · rfl
      · exact ih _ _

/-- the traced fold, its trace dropped, is the fold of the step with its trace dropped -/
theorem foldET_fst {σ β : Type} (fT : σ → β → Except Err σ × STrace) (f : σ → β → Except Err σ)
    (h : ∀ s x, (fT s x).1 = f s x) :
    ∀ (l : List β) (s : σ), (foldET fT s l).1 = foldE f s l := by
  intro l
  induction l with
  | nil => intro s; rfl
  | cons x xs ih =>
    intro s
    simp only [foldET, foldE]
    rw [← h s x]
    rcases fT s x with ⟨_ | s', tr⟩
    · rfl
    · exact ih _

theorem snpRecT_fst (v nm : α → Nat) [BEq α] (contents : Bool) (fuel : Nat) :
    ∀ (c : Nat) (prior best : Bins α) (items shown : List α),
      (snpRecT v nm contents fuel c prior best items shown).1 = snpRec v nm contents fuel c prior best items := by
  intro c
  induction c using Nat.strongRecOn with
  | _ c ih =>
    intro prior best items shown
    match c with
    | 0 => rfl
    | 1 => rfl
    | 2 => rfl
    | cur + 3 =>
      simp only [snpRecT, snpRec]
      exact treeFoldT_fst _ _ _ _ _ _ (fun b sub => ih (cur + 2) (by omega) _ _ _ _) _ _ _

/-- dropping the trace gives the modelled `snp` -/
theorem snpT_fst (v nm : α → Nat) [BEq α] (k : Nat) (contents : Bool) (items : List α) (fuel : Nat) :
    (snpT v nm k contents items fuel).1 = snp v nm k contents items fuel := by
  unfold snpT snp
  cases kk v k items with
  | error e => rfl
  | ok best =>
    simp only []
    split
    · rfl
    · exact snpRecT_fst _ _ _ _ _ _ _ _ _

theorem rnpRecFT_fst (v nm : α → Nat) [BEq α] (contents : Bool) (fuel : Nat) :
    ∀ (rf cur : Nat) (prior best : Bins α) (items shown : List α),
      (rnpRecFT v nm contents fuel rf cur prior best items shown).1 = rnpRecF v nm contents fuel rf cur prior best items := by
  intro rf
  induction rf with
  | zero => intros; rfl
  | succ rf ih =>
    intro cur prior best items shown
    simp only [rnpRecFT, rnpRecF]
    split
    · rfl
    · split
      · apply foldET_fst
        intro b sub
        rw [← ih]
        rcases rnpRecFT v nm contents fuel rf (cur - 1) _ b (findDiff items sub) (findDiffC shown sub) with ⟨_ | nb, tr⟩
        · rfl
        · rfl
      · rcases (if items.isEmpty = true then Except.error Err.valueError
            else ckkGen v nm 2 true items (some (spread best.sums)) fuel) with _ | tops
        · rfl
        · simp only []
          congr 1
          apply foldET_fst
          intro st top
          rw [← ih (cur / 2) prior st.1 (top.lists.getD 0 []) (top.lists.getD 0 []),
              ← ih (cur / 2) prior st.1 (top.lists.getD 1 []) (top.lists.getD 1 [])]
          rcases rnpRecFT v nm contents fuel rf (cur / 2) prior st.1 (top.lists.getD 0 []) (top.lists.getD 0 []) with ⟨_ | nb1, tr1⟩
          · rfl
          · rcases rnpRecFT v nm contents fuel rf (cur / 2) prior st.1 (top.lists.getD 1 []) (top.lists.getD 1 []) with ⟨_ | nb2, tr2⟩
            · rfl
            · rfl

/-- dropping the trace gives the modelled `rnp` (after F10) -/
theorem rnpFT_fst (v nm : α → Nat) [BEq α] (k : Nat) (contents : Bool) (items : List α) (fuel : Nat) :
    (rnpFT v nm k contents items fuel).1 = rnpF v nm k contents items fuel := by
  unfold rnpFT rnpF
  cases kk v k items with
  | error e => rfl
  | ok best =>
    simp only []
    split
    · rfl
    · split
      · rfl
      · exact rnpRecFT_fst _ _ _ _ _ _ _ _ _ _

end SNPTrace
end Prtpy

/-! ### non-vacuity -/
namespace Prtpy
namespace SNPTrace

/-- snp, 3 bins, KK's start [16,14,13] is not perfect: four calls of `ckk_optimal`; the first two subsets of the tree are
    the two 9-and-5 choices (equal values), and the items passed are in `Counter` order (the two 5s of
    `[9,6,5,5,4]` adjacent is also the order-preserving one here; see the next example for a case where they differ) -/
example : (snpT id id 3 true [9, 7, 7, 6, 5, 5, 4] 1000).2 =
    [.optimal [7, 7, 6, 5, 4], .optimal [7, 7, 6, 5, 4], .optimal [9, 6, 5, 5, 4], .optimal [9, 7, 7, 6]] := by
  decide +kernel

example : ((snpT id id 3 true [9, 7, 7, 6, 5, 5, 4] 1000).1.toOption.map (·.sums)) = some [14, 15, 14] := by
  decide +kernel

/-- `find_diff` groups equal items: after taking `[6]` out of `[4,5,4,6,1]` Python holds `[4,4,5,1]` (the untraced
    model, and the traced one in its `items` argument, hold `[4,5,4,1]`) -/
example : (snpT id id 3 true [4, 5, 4, 6, 1] 1000).2 = [.optimal [4, 4, 5, 1], .optimal [4, 4, 6]] := by
  decide +kernel

/-- snp, 4 bins: two levels of trees -/
example : (snpT id id 4 true [5, 1] 1000).2 = [.optimal [5], .optimal [5], .optimal [5, 1]] := by
  decide +kernel

/-- rnp (after F10), 4 bins, KK's start has difference 2: one call of the generator with bound 2 on all the items, then
    two calls of `ckk_optimal` for each of the four top-level splits it yields -/
example : (rnpFT id id 4 true [2, 10, 7, 3, 3, 7, 6, 4] 1000).2 =
    [.generator [2, 10, 7, 3, 3, 7, 6, 4] 2,
     .optimal [4, 7, 10], .optimal [2, 3, 3, 6, 7], .optimal [3, 4, 7, 7], .optimal [2, 3, 6, 10],
     .optimal [3, 4, 7, 7], .optimal [2, 3, 6, 10], .optimal [2, 3, 3, 6, 7], .optimal [4, 7, 10]] := by
  decide +kernel

example : ((rnpFT id id 4 true [2, 10, 7, 3, 3, 7, 6, 4] 1000).1.toOption.map (·.sums)) = some [10, 11, 10, 11] := by
  decide +kernel

/-- rnp, 5 bins: a generator call (on the items in `Counter` order) for every subset of the tree -/
example : (rnpFT id id 5 true [3, 3] 1000).2 = [.generator [3, 3] 3, .optimal [3], .optimal [3]] := by
  decide +kernel

/-- the call is recorded also when it raises: two bins left and nothing to put in them (`max([])` inside `optimal`),
    four bins left and nothing to put in them (the generator raises at its first `next`) -/
def errOf {β : Type} : Except Err β → Option Err
  | .error e => some e
  | .ok _ => none

example : (let r := snpRecT id id true 1000 2 ⟨[], []⟩ ⟨[0, 1], [[], [1]]⟩ ([] : List Nat) []
    (errOf r.1, r.2)) = (some .valueError, [.optimal []]) := by
  decide +kernel
example : (let r := rnpRecFT id id true 1000 3 4 ⟨[], []⟩ ⟨[0, 0, 0, 1], [[], [], [], [1]]⟩ ([] : List Nat) []
    (errOf r.1, r.2)) = (some .valueError, [.generator [] 1]) := by
  decide +kernel

end SNPTrace
end Prtpy

#print axioms Prtpy.SNPTrace.snpT_fst
#print axioms Prtpy.SNPTrace.rnpFT_fst
#print axioms Prtpy.SNPTrace.snpRecT_fst
#print axioms Prtpy.SNPTrace.rnpRecFT_fst
#print axioms Prtpy.SNPTrace.treeFoldT_fst
#print axioms Prtpy.SNPTrace.foldET_fst
/- observed:
'Prtpy.SNPTrace.snpT_fst' depends on axioms: [propext, Quot.sound]
'Prtpy.SNPTrace.rnpFT_fst' depends on axioms: [propext]
'Prtpy.SNPTrace.snpRecT_fst' depends on axioms: [propext, Quot.sound]
'Prtpy.SNPTrace.rnpRecFT_fst' depends on axioms: [propext]
'Prtpy.SNPTrace.treeFoldT_fst' does not depend on any axioms
'Prtpy.SNPTrace.foldET_fst' does not depend on any axioms
-/
