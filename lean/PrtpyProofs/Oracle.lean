/-
  PrtpyProofs.Oracle — the dynamic-programming model `dpFinal` and the fast oracle `optValue`
  both compute the true optimum over all assignments of items to bins.
-/
import Prtpy

namespace Prtpy.Oracle
open Prtpy

variable {α : Type}

deriving instance DecidableEq for DpRec

/-! ### generic helpers -/

/-- induction from the right -/
theorem rev_induction {β : Type} {P : List β → Prop} (nil : P [])
    (snoc : ∀ l a, P l → P (l ++ [a])) : ∀ l, P l := by
  intro l
  have h : ∀ r : List β, P r.reverse := by
    intro r
    induction r with
    | nil => exact nil
    | cons a r ih => rw [List.reverse_cons]; exact snoc _ _ ih
  simpa using h l.reverse

/-- a list of length `n + 1` is a list of length `n` plus a last element -/
theorem exists_concat_of_length {β : Type} {l : List β} {n : Nat} (h : l.length = n + 1) :
    ∃ l' a, l = l' ++ [a] ∧ l'.length = n := by
  rcases List.eq_nil_or_concat l with rfl | ⟨l', a, rfl⟩
  · simp at h
  · refine ⟨l', a, by simp, ?_⟩
    simpa using h

theorem modify_comm_add (s : List Nat) (i j a b : Nat) :
    (s.modify i (· + a)).modify j (· + b) = (s.modify j (· + b)).modify i (· + a) := by
  apply List.ext_getElem
  · simp
  · intro n h1 h2
    simp only [List.getElem_modify]
    split <;> split <;> omega

theorem modify_length_append_cons {β : Type} (f : β → β) (l₁ : List β) (a : β) (l₂ : List β) :
    (l₁ ++ a :: l₂).modify l₁.length f = l₁ ++ f a :: l₂ := by
  induction l₁ with
  | nil => simp
  | cons x l₁ ih => simp [ih]

/-! ### `sumsOf` from an arbitrary start vector -/

/-- `sumsOf` generalised to an arbitrary start vector -/
def sumsFrom (s : List Nat) (vals asg : List Nat) : List Nat :=
  (vals.zip asg).foldl (fun s (p : Nat × Nat) => s.modify p.2 (· + p.1)) s

theorem sumsOf_eq (k : Nat) (vals asg : List Nat) :
    sumsOf k vals asg = sumsFrom (List.replicate k 0) vals asg := rfl

@[simp] theorem sumsFrom_nil_left (s asg : List Nat) : sumsFrom s [] asg = s := by
  simp [sumsFrom]

@[simp] theorem sumsFrom_nil_right (s vals : List Nat) : sumsFrom s vals [] = s := by
  simp [sumsFrom]

@[simp] theorem sumsFrom_cons (s : List Nat) (v i : Nat) (vals asg : List Nat) :
    sumsFrom s (v :: vals) (i :: asg) = sumsFrom (s.modify i (· + v)) vals asg := by
  simp [sumsFrom]

theorem length_sumsFrom (s vals asg : List Nat) : (sumsFrom s vals asg).length = s.length := by
  induction vals generalizing s asg with
  | nil => simp
  | cons v vals ih =>
    cases asg with
    | nil => simp
    | cons i asg => simp [ih]

@[simp] theorem length_sumsOf (k : Nat) (vals asg : List Nat) : (sumsOf k vals asg).length = k := by
  simp [sumsOf_eq, length_sumsFrom]

theorem sumsFrom_concat (s : List Nat) {vals asg : List Nat} (v i : Nat) (h : vals.length = asg.length) :
    sumsFrom s (vals ++ [v]) (asg ++ [i]) = (sumsFrom s vals asg).modify i (· + v) := by
  simp [sumsFrom, List.zip_append h]

theorem sumsOf_concat (k : Nat) {vals asg : List Nat} (v i : Nat) (h : vals.length = asg.length) :
    sumsOf k (vals ++ [v]) (asg ++ [i]) = (sumsOf k vals asg).modify i (· + v) :=
  sumsFrom_concat _ v i h

theorem sumsFrom_modify (s : List Nat) (i c : Nat) (vals asg : List Nat) :
    sumsFrom (s.modify i (· + c)) vals asg = (sumsFrom s vals asg).modify i (· + c) := by
  induction vals generalizing s asg with
  | nil => simp
  | cons v vals ih =>
    cases asg with
    | nil => simp
    | cons j asg => simp only [sumsFrom_cons]; rw [modify_comm_add, ih]

/-! ### assignments -/

theorem isAssignment_nil (k : Nat) : IsAssignment k 0 [] := by
  simp [IsAssignment]

theorem isAssignment_concat {k n : Nat} {asg : List Nat} {i : Nat} (h : IsAssignment k n asg) (hi : i < k) :
    IsAssignment k (n + 1) (asg ++ [i]) := by
  refine ⟨by simp [h.1], ?_⟩
  intro a ha
  rcases List.mem_append.1 ha with ha | ha
  · exact h.2 a ha
  · simp at ha; omega

theorem isAssignment_cons {k n : Nat} {asg : List Nat} {i : Nat} (h : IsAssignment k n asg) (hi : i < k) :
    IsAssignment k (n + 1) (i :: asg) := by
  refine ⟨by simp [h.1], ?_⟩
  intro a ha
  rcases List.mem_cons.1 ha with rfl | ha
  · exact hi
  · exact h.2 a ha

theorem isAssignment_succ_iff {k n : Nat} {asg : List Nat} :
    IsAssignment k (n + 1) asg ↔ ∃ asg' i, asg = asg' ++ [i] ∧ IsAssignment k n asg' ∧ i < k := by
  constructor
  · rintro ⟨hl, hb⟩
    obtain ⟨asg', i, rfl, hl'⟩ := exists_concat_of_length hl
    exact ⟨asg', i, rfl, ⟨hl', fun a ha => hb a (by simp [ha])⟩, hb i (by simp)⟩
  · rintro ⟨asg', i, rfl, h, hi⟩
    exact isAssignment_concat h hi

theorem isAssignment_replicate {k : Nat} (hk : 0 < k) (n : Nat) : IsAssignment k n (List.replicate n 0) := by
  refine ⟨by simp, ?_⟩
  intro a ha
  rw [(List.mem_replicate.1 ha).2]; exact hk

/-! ### `sortAsc id` -/

theorem perm_insertAsc {β : Type} (key : β → Nat) (x : β) (l : List β) : (insertAsc key x l).Perm (x :: l) := by
  induction l with
  | nil => simp [insertAsc]
  | cons y ys ih =>
    simp only [insertAsc]
    split
    · exact List.Perm.refl _
    · exact (List.Perm.cons y ih).trans (List.Perm.swap x y ys)

theorem perm_sortAsc {β : Type} (key : β → Nat) (l : List β) : (sortAsc key l).Perm l := by
  induction l with
  | nil => simp [sortAsc]
  | cons x xs ih => exact (perm_insertAsc key x _).trans (List.Perm.cons x ih)

theorem pairwise_insertAsc (x : Nat) {l : List Nat} (h : l.Pairwise (· ≤ ·)) :
    (insertAsc id x l).Pairwise (· ≤ ·) := by
  induction l with
  | nil => simp [insertAsc]
  | cons y ys ih =>
    simp only [insertAsc, id]
    rw [List.pairwise_cons] at h
    split
    · rename_i hxy
      refine List.pairwise_cons.2 ⟨?_, List.pairwise_cons.2 h⟩
      intro z hz
      rcases List.mem_cons.1 hz with rfl | hz
      · exact hxy
      · exact Nat.le_trans hxy (h.1 z hz)
    · rename_i hxy
      refine List.pairwise_cons.2 ⟨?_, ih h.2⟩
      intro z hz
      rcases List.mem_cons.1 ((perm_insertAsc id x ys).mem_iff.1 hz) with rfl | hz
      · omega
      · exact h.1 z hz

theorem pairwise_sortAsc (l : List Nat) : (sortAsc id l).Pairwise (· ≤ ·) := by
  induction l with
  | nil => simp [sortAsc]
  | cons x xs ih => exact pairwise_insertAsc x ih

/-- a sorted list is determined by its permutation class -/
theorem sortAsc_eq_of_perm {l₁ l₂ : List Nat} (h : l₁.Perm l₂) : sortAsc id l₁ = sortAsc id l₂ := by
  refine List.Perm.eq_of_pairwise (le := (· ≤ ·)) ?_ (pairwise_sortAsc l₁) (pairwise_sortAsc l₂) ?_
  · intro a b _ _ hab hba; exact Nat.le_antisymm hab hba
  · exact ((perm_sortAsc id l₁).trans h).trans (perm_sortAsc id l₂).symm

@[simp] theorem length_sortAsc {β : Type} (key : β → Nat) (l : List β) : (sortAsc key l).length = l.length :=
  (perm_sortAsc key l).length_eq

/-! ### adding to one index commutes with permutations -/

theorem perm_modify {β : Type} (f : β → β) {l l' : List β} (h : l.Perm l') :
    ∀ i, i < l.length → ∃ j, j < l'.length ∧ (l.modify i f).Perm (l'.modify j f) := by
  induction h with
  | nil => intro i hi; simp at hi
  | cons x hp ih =>
    intro i hi
    cases i with
    | zero => exact ⟨0, by simp, by simpa using List.Perm.cons (f x) hp⟩
    | succ i =>
      obtain ⟨j, hj, hp⟩ := ih i (by simpa using hi)
      exact ⟨j + 1, by simpa using hj, by simpa using List.Perm.cons x hp⟩
  | swap x y l =>
    intro i hi
    match i with
    | 0 => exact ⟨1, by simp, by simpa using List.Perm.swap _ _ _⟩
    | 1 => exact ⟨0, by simp, by simpa using List.Perm.swap _ _ _⟩
    | i + 2 =>
      refine ⟨i + 2, by simpa using hi, ?_⟩
      simpa using List.Perm.swap _ _ _
  | trans h₁ _ ih₁ ih₂ =>
    intro i hi
    obtain ⟨j, hj, hp⟩ := ih₁ i hi
    obtain ⟨m, hm, hq⟩ := ih₂ j hj
    exact ⟨m, hm, hp.trans hq⟩

/-- sorting, adding at an index and sorting again = adding at some index and sorting -/
theorem sort_modify_sort (f : Nat → Nat) (s : List Nat) (i : Nat) (hi : i < s.length) :
    ∃ j, j < s.length ∧ sortAsc id ((sortAsc id s).modify i f) = sortAsc id (s.modify j f) := by
  obtain ⟨j, hj, hp⟩ := perm_modify f (perm_sortAsc id s) i (by simpa using hi)
  exact ⟨j, hj, sortAsc_eq_of_perm hp⟩

theorem sort_modify_sort' (f : Nat → Nat) (s : List Nat) (j : Nat) (hj : j < s.length) :
    ∃ i, i < s.length ∧ sortAsc id ((sortAsc id s).modify i f) = sortAsc id (s.modify j f) := by
  obtain ⟨i, hi, hp⟩ := perm_modify f (perm_sortAsc id s).symm j hj
  exact ⟨i, by simpa using hi, sortAsc_eq_of_perm hp.symm⟩

/-! ### the oracle's layers as sets -/

theorem mem_dedupAdj (x : List Nat) (l : List (List Nat)) : x ∈ dedupAdj l ↔ x ∈ l := by
  fun_induction dedupAdj l with
  | case1 => simp
  | case2 y => simp
  | case3 a b rest hab ih =>
    have : a = b := by simpa using hab
    subst this
    rw [ih]; simp
  | case4 a b rest hab ih =>
    rw [List.mem_cons, ih, List.mem_cons (a := x) (b := a)]

theorem mem_oracleLayer (k value : Nat) (cur : List (List Nat)) (st : List Nat) :
    st ∈ oracleLayer k value cur ↔
      ∃ s ∈ cur, ∃ i, i < k ∧ st = sortAsc id (s.modify i (· + value)) := by
  simp only [oracleLayer, mem_dedupAdj, List.mem_mergeSort, List.mem_flatMap, List.mem_map, List.mem_range]
  constructor
  · rintro ⟨s, hs, i, hi, rfl⟩; exact ⟨s, hs, i, hi, rfl⟩
  · rintro ⟨s, hs, i, hi, rfl⟩; exact ⟨s, hs, i, hi, rfl⟩

theorem oracleFinal_concat (k : Nat) (vals : List Nat) (v : Nat) :
    oracleFinal k (vals ++ [v]) = oracleLayer k v (oracleFinal k vals) := by
  simp [oracleFinal, List.foldl_append]

/-- **Layers of the oracle = sorted sum-vectors of all assignments.** -/
theorem mem_oracleFinal (k : Nat) (vals : List Nat) (st : List Nat) :
    st ∈ oracleFinal k vals ↔
      ∃ asg, IsAssignment k vals.length asg ∧ st = sortAsc id (sumsOf k vals asg) := by
  induction vals using rev_induction generalizing st with
  | nil =>
    constructor
    · intro h
      have : st = List.replicate k 0 := by simpa [oracleFinal] using h
      subst this
      refine ⟨[], isAssignment_nil k, ?_⟩
      have hp : (sortAsc id (List.replicate k 0)).Perm (List.replicate k 0) := perm_sortAsc _ _
      simpa [sumsOf] using (List.perm_replicate.1 hp).symm
    · rintro ⟨asg, ⟨hl, _⟩, rfl⟩
      have : asg = [] := List.length_eq_zero_iff.1 (by simpa using hl)
      subst this
      have hp : (sortAsc id (List.replicate k 0)).Perm (List.replicate k 0) := perm_sortAsc _ _
      simp [oracleFinal, sumsOf, List.perm_replicate.1 hp]
  | snoc vs v ih =>
    rw [oracleFinal_concat, mem_oracleLayer]
    constructor
    · rintro ⟨s, hs, i, hi, rfl⟩
      obtain ⟨asg, hasg, rfl⟩ := (ih s).1 hs
      obtain ⟨j, hj, he⟩ := sort_modify_sort (· + v) (sumsOf k vs asg) i (by simpa using hi)
      refine ⟨asg ++ [j], ?_, ?_⟩
      · simpa using isAssignment_concat hasg (by simpa using hj)
      · rw [he, sumsOf_concat k v j hasg.1.symm]
    · rintro ⟨asg, hasg, rfl⟩
      rw [List.length_append, List.length_singleton, isAssignment_succ_iff] at hasg
      obtain ⟨asg', j, rfl, hasg', hj⟩ := hasg
      obtain ⟨i, hi, he⟩ := sort_modify_sort' (· + v) (sumsOf k vs asg') j (by simpa using hj)
      refine ⟨sortAsc id (sumsOf k vs asg'), (ih _).2 ⟨asg', hasg', rfl⟩, i, by simpa using hi, ?_⟩
      rw [he, sumsOf_concat k v j hasg'.1.symm]

/-- non-vacuity: `[3, 3]` is in the last layer for `[1, 2, 3]`, witnessed by the assignment `[0, 0, 1]` -/
example : [3, 3] ∈ oracleFinal 2 [1, 2, 3] :=
  (mem_oracleFinal 2 [1, 2, 3] [3, 3]).2 ⟨[0, 0, 1], ⟨rfl, by decide⟩, by decide⟩

/-! ### the layers of the DP model -/

theorem mem_foldl_dpInsert (l acc : List DpRec) (r : DpRec) :
    r ∈ l.foldl (fun acc r => dpInsert r acc) acc → r ∈ acc ∨ r ∈ l := by
  induction l generalizing acc with
  | nil => intro h; exact Or.inl h
  | cons a l ih =>
    intro h
    rcases ih _ h with h | h
    · replace h : r ∈ dpInsert a acc := h
      unfold dpInsert at h
      split at h
      · exact Or.inl h
      · rcases List.mem_cons.1 h with rfl | h
        · exact Or.inr (by simp)
        · exact Or.inl h
    · exact Or.inr (List.mem_cons_of_mem _ h)

theorem state_mem_dpInsert (a : DpRec) (acc : List DpRec) (st : List Nat) :
    (∃ r ∈ dpInsert a acc, r.state = st) ↔ a.state = st ∨ ∃ r ∈ acc, r.state = st := by
  unfold dpInsert
  split
  · rename_i h
    obtain ⟨o, ho, hoa⟩ : ∃ o ∈ acc, o.state = a.state := by simpa using h
    constructor
    · exact Or.inr
    · rintro (h | h)
      · exact ⟨o, ho, hoa.trans h⟩
      · exact h
  · constructor
    · rintro ⟨r, hr, hs⟩
      rcases List.mem_cons.1 hr with rfl | hr
      · exact Or.inl hs
      · exact Or.inr ⟨r, hr, hs⟩
    · rintro (h | ⟨r, hr, hs⟩)
      · exact ⟨a, by simp, h⟩
      · exact ⟨r, List.mem_cons_of_mem _ hr, hs⟩

theorem state_mem_foldl_dpInsert (l acc : List DpRec) (st : List Nat) :
    (∃ r ∈ l.foldl (fun acc r => dpInsert r acc) acc, r.state = st) ↔
      (∃ r ∈ acc, r.state = st) ∨ (∃ r ∈ l, r.state = st) := by
  induction l generalizing acc with
  | nil => simp
  | cons a l ih =>
    rw [List.foldl_cons, ih, state_mem_dpInsert]
    constructor
    · rintro ((h | h) | ⟨r, hr, hs⟩)
      · exact Or.inr ⟨a, by simp, h⟩
      · exact Or.inl h
      · exact Or.inr ⟨r, List.mem_cons_of_mem _ hr, hs⟩
    · rintro (h | ⟨r, hr, hs⟩)
      · exact Or.inl (Or.inr h)
      · rcases List.mem_cons.1 hr with rfl | hr
        · exact Or.inl (Or.inl hs)
        · exact Or.inr ⟨r, hr, hs⟩

theorem mem_expand (k value : Nat) (cur : List DpRec) (r : DpRec) :
    r ∈ cur.flatMap (dpExpand k value) ↔
      ∃ r0 ∈ cur, ∃ i, i < k ∧ r = ⟨r0.state.modify i (· + value), i :: r0.path⟩ := by
  simp only [List.mem_flatMap, dpExpand, List.mem_map, List.mem_range]
  constructor
  · rintro ⟨r0, h0, i, hi, rfl⟩; exact ⟨r0, h0, i, hi, rfl⟩
  · rintro ⟨r0, h0, i, hi, rfl⟩; exact ⟨r0, h0, i, hi, rfl⟩

/-- every record of a layer extends a record of the previous layer -/
theorem mem_dpLayer (k value : Nat) (cur : List DpRec) (r : DpRec) (h : r ∈ dpLayer k value cur) :
    ∃ r0 ∈ cur, ∃ i, i < k ∧ r = ⟨r0.state.modify i (· + value), i :: r0.path⟩ := by
  rcases mem_foldl_dpInsert _ _ _ h with h | h
  · simp at h
  · exact (mem_expand k value cur r).1 h

/-- the states of a layer are exactly the successors of the states of the previous layer -/
theorem state_mem_dpLayer (k value : Nat) (cur : List DpRec) (st : List Nat) :
    (∃ r ∈ dpLayer k value cur, r.state = st) ↔
      ∃ r0 ∈ cur, ∃ i, i < k ∧ st = r0.state.modify i (· + value) := by
  unfold dpLayer
  rw [state_mem_foldl_dpInsert]
  constructor
  · rintro (⟨r, hr, _⟩ | ⟨r, hr, rfl⟩)
    · simp at hr
    · obtain ⟨r0, h0, i, hi, rfl⟩ := (mem_expand k value cur r).1 hr
      exact ⟨r0, h0, i, hi, rfl⟩
  · rintro ⟨r0, h0, i, hi, rfl⟩
    exact Or.inr ⟨_, (mem_expand k value cur _).2 ⟨r0, h0, i, hi, rfl⟩, rfl⟩

theorem dpFinal_concat (k : Nat) (vals : List Nat) (v : Nat) :
    dpFinal k (vals ++ [v]) = dpLayer k v (dpFinal k vals) := by
  simp [dpFinal, List.foldl_append]

/-- the path of a final record (reversed) is an assignment, and the state is its sum-vector -/
theorem dpFinal_inv (k : Nat) (vals : List Nat) (r : DpRec) (hr : r ∈ dpFinal k vals) :
    IsAssignment k vals.length r.path.reverse ∧ r.state = sumsOf k vals r.path.reverse := by
  induction vals using rev_induction generalizing r with
  | nil =>
    have : r = ⟨List.replicate k 0, []⟩ := by simpa [dpFinal] using hr
    subst this
    exact ⟨isAssignment_nil k, by simp [sumsOf]⟩
  | snoc vs v ih =>
    rw [dpFinal_concat] at hr
    obtain ⟨r0, h0, i, hi, rfl⟩ := mem_dpLayer k v _ r hr
    obtain ⟨ha, hs⟩ := ih r0 h0
    refine ⟨by simpa using isAssignment_concat ha hi, ?_⟩
    simp only [List.reverse_cons]
    rw [sumsOf_concat k v i ha.1.symm, ← hs]

/-- **Final states of the DP model = sum-vectors of all assignments.** -/
theorem mem_dpFinal_state (k : Nat) (vals : List Nat) (st : List Nat) :
    (∃ r ∈ dpFinal k vals, r.state = st) ↔
      ∃ asg, IsAssignment k vals.length asg ∧ st = sumsOf k vals asg := by
  constructor
  · rintro ⟨r, hr, rfl⟩
    exact ⟨r.path.reverse, dpFinal_inv k vals r hr⟩
  · induction vals using rev_induction generalizing st with
    | nil =>
      rintro ⟨asg, ⟨hl, _⟩, rfl⟩
      have : asg = [] := List.length_eq_zero_iff.1 (by simpa using hl)
      subst this
      exact ⟨⟨List.replicate k 0, []⟩, by simp [dpFinal], by simp [sumsOf]⟩
    | snoc vs v ih =>
      rintro ⟨asg, hasg, rfl⟩
      rw [List.length_append, List.length_singleton, isAssignment_succ_iff] at hasg
      obtain ⟨asg', j, rfl, hasg', hj⟩ := hasg
      obtain ⟨r0, h0, hs0⟩ := ih _ ⟨asg', hasg', rfl⟩
      rw [dpFinal_concat, state_mem_dpLayer]
      exact ⟨r0, h0, j, hj, by rw [hs0, sumsOf_concat k v j hasg'.1.symm]⟩

/-- non-vacuity: the state `[3, 3]` is reached for `[1, 2, 3]`, witnessed by the assignment `[0, 0, 1]` -/
example : ∃ r ∈ dpFinal 2 [1, 2, 3], r.state = [3, 3] :=
  (mem_dpFinal_state 2 [1, 2, 3] [3, 3]).2 ⟨[0, 0, 1], ⟨rfl, by decide⟩, by decide⟩

/-- the other direction has content too: the final layer is a complete enumeration, so a vector that is absent
    from it (`[2, 2]`) is produced by no assignment -/
example : ∀ asg, IsAssignment 2 3 asg → [2, 2] ≠ sumsOf 2 [1, 2, 3] asg := by
  intro asg hasg he
  obtain ⟨r, hr, hs⟩ := (mem_dpFinal_state 2 [1, 2, 3] [2, 2]).2 ⟨asg, hasg, he⟩
  have hall : ∀ r ∈ dpFinal 2 [1, 2, 3], r.state ≠ [2, 2] := by decide
  exact hall r hr hs

/-! ### objectives are symmetric in the sums -/

theorem minL_cons_cons (x y : Nat) (l : List Nat) : minL (x :: y :: l) = min x (minL (y :: l)) := rfl

theorem minL_mem {l : List Nat} (h : l ≠ []) : minL l ∈ l := by
  induction l with
  | nil => exact absurd rfl h
  | cons x xs ih =>
    cases xs with
    | nil => simp [minL]
    | cons y ys =>
      rw [minL_cons_cons]
      have := ih (by simp)
      rcases Nat.le_total x (minL (y :: ys)) with hle | hle
      · rw [Nat.min_eq_left hle]; simp
      · rw [Nat.min_eq_right hle]; exact List.mem_cons_of_mem _ this

theorem minL_le {l : List Nat} {y : Nat} (h : y ∈ l) : minL l ≤ y := by
  induction l with
  | nil => simp at h
  | cons x xs ih =>
    cases xs with
    | nil =>
      have : y = x := by simpa using h
      subst this; simp [minL]
    | cons z zs =>
      rw [minL_cons_cons]
      rcases List.mem_cons.1 h with rfl | h
      · exact Nat.min_le_left _ _
      · exact Nat.le_trans (Nat.min_le_right _ _) (ih h)

theorem maxL_mem {l : List Nat} (h : l ≠ []) : maxL l ∈ l := by
  induction l with
  | nil => exact absurd rfl h
  | cons x xs ih =>
    cases xs with
    | nil => simp [maxL]
    | cons y ys =>
      have := ih (by simp)
      show max x (maxL (y :: ys)) ∈ _
      rcases Nat.le_total x (maxL (y :: ys)) with hle | hle
      · rw [Nat.max_eq_right hle]; exact List.mem_cons_of_mem _ this
      · rw [Nat.max_eq_left hle]; simp

theorem le_maxL {l : List Nat} {y : Nat} (h : y ∈ l) : y ≤ maxL l := by
  induction l with
  | nil => simp at h
  | cons x xs ih =>
    show y ≤ max x (maxL xs)
    rcases List.mem_cons.1 h with rfl | h
    · exact Nat.le_max_left _ _
    · exact Nat.le_trans (ih h) (Nat.le_max_right _ _)

theorem minL_perm {l₁ l₂ : List Nat} (h : l₁.Perm l₂) : minL l₁ = minL l₂ := by
  by_cases h1 : l₁ = []
  · subst h1; rw [h.nil_eq]
  · have h2 : l₂ ≠ [] := fun e => h1 (by subst e; exact h.eq_nil)
    exact Nat.le_antisymm (minL_le (h.mem_iff.2 (minL_mem h2))) (minL_le (h.mem_iff.1 (minL_mem h1)))

theorem maxL_perm {l₁ l₂ : List Nat} (h : l₁.Perm l₂) : maxL l₁ = maxL l₂ := by
  by_cases h1 : l₁ = []
  · subst h1; rw [h.nil_eq]
  · have h2 : l₂ ≠ [] := fun e => h1 (by subst e; exact h.eq_nil)
    exact Nat.le_antisymm (le_maxL (h.mem_iff.1 (maxL_mem h1))) (le_maxL (h.mem_iff.2 (maxL_mem h2)))

/-- every objective is invariant under permutation of the sums -/
theorem value_perm (o : Objective) {l₁ l₂ : List Nat} (h : l₁.Perm l₂) :
    o.value l₁ false = o.value l₂ false := by
  cases o <;>
    simp only [Objective.value, Bool.false_eq_true, if_false, minL_perm h, maxL_perm h, sortAsc_eq_of_perm h]

theorem value_sortAsc (o : Objective) (l : List Nat) : o.value (sortAsc id l) false = o.value l false :=
  value_perm o (perm_sortAsc id l)

/-! ### the least element of a list of integers -/

theorem foldl_min_mem (x : Int) (xs : List Int) : xs.foldl min x ∈ x :: xs := by
  induction xs generalizing x with
  | nil => simp
  | cons a xs ih =>
    rw [List.foldl_cons]
    rcases List.mem_cons.1 (ih (min x a)) with h | h
    · rw [h]
      rcases Int.le_total x a with hle | hle
      · rw [Int.min_eq_left hle]; simp
      · rw [Int.min_eq_right hle]; simp
    · exact List.mem_cons_of_mem _ (List.mem_cons_of_mem _ h)

theorem foldl_min_le (x : Int) (xs : List Int) : ∀ y ∈ x :: xs, xs.foldl min x ≤ y := by
  induction xs generalizing x with
  | nil => intro y hy; simp at hy; subst hy; simp
  | cons a xs ih =>
    intro y hy
    rw [List.foldl_cons]
    have h0 := ih (min x a) (min x a) (by simp)
    rcases List.mem_cons.1 hy with rfl | hy
    · exact Int.le_trans h0 (Int.min_le_left _ _)
    · rcases List.mem_cons.1 hy with rfl | hy
      · exact Int.le_trans h0 (Int.min_le_right _ _)
      · exact ih (min x a) y (List.mem_cons_of_mem _ hy)

/-- the `match`/`foldl min` idiom of `optValue` and `dpBestValue` returns the optimum as soon as the list
    consists of exactly the objective values of the assignments -/
theorem best_spec (o : Objective) (k : Nat) (vals : List Nat) (ys : List Int)
    (hsound : ∀ y ∈ ys, ∃ asg, IsAssignment k vals.length asg ∧ o.value (sumsOf k vals asg) false = y)
    (hcompl : ∀ asg, IsAssignment k vals.length asg → o.value (sumsOf k vals asg) false ∈ ys)
    (hne : ys ≠ []) :
    ∃ x, (match ys with | [] => none | x :: xs => some (xs.foldl min x)) = some x ∧
      IsOptimalValue o k vals x := by
  cases ys with
  | nil => exact absurd rfl hne
  | cons y ys =>
    refine ⟨ys.foldl min y, rfl, hsound _ (foldl_min_mem y ys), ?_⟩
    intro asg hasg
    exact foldl_min_le y ys _ (hcompl asg hasg)

theorem isOptimalValue_unique {o : Objective} {k : Nat} {vals : List Nat} {x y : Int}
    (hx : IsOptimalValue o k vals x) (hy : IsOptimalValue o k vals y) : x = y := by
  obtain ⟨⟨a, ha, hax⟩, hxl⟩ := hx
  obtain ⟨⟨b, hb, hby⟩, hyl⟩ := hy
  have h1 := hxl b hb
  have h2 := hyl a ha
  omega

/-- **The oracle is correct.** -/
theorem optValue_spec (o : Objective) {k : Nat} (vals : List Nat) (hk : 0 < k) :
    ∃ x, optValue o k vals = some x ∧ IsOptimalValue o k vals x := by
  unfold optValue
  apply best_spec
  · intro y hy
    obtain ⟨st, hst, rfl⟩ := List.mem_map.1 hy
    obtain ⟨asg, hasg, rfl⟩ := (mem_oracleFinal k vals st).1 hst
    exact ⟨asg, hasg, (value_sortAsc o _).symm⟩
  · intro asg hasg
    refine List.mem_map.2 ⟨_, (mem_oracleFinal k vals _).2 ⟨asg, hasg, rfl⟩, value_sortAsc o _⟩
  · intro h
    have hmem := (mem_oracleFinal k vals _).2 ⟨_, isAssignment_replicate hk vals.length, rfl⟩
    rw [List.map_eq_nil_iff] at h
    rw [h] at hmem
    simp at hmem

/-- non-vacuity: three bins, five items, the difference objective -/
example : ∃ x, optValue .minDiff 3 [4, 5, 6, 7, 8] = some x ∧ IsOptimalValue .minDiff 3 [4, 5, 6, 7, 8] x :=
  optValue_spec .minDiff [4, 5, 6, 7, 8] (by decide)

/-- **The DP model computes the optimum.** -/
theorem dpBestValue_spec (o : Objective) {k : Nat} (vals : List Nat) (hk : 0 < k) :
    ∃ x, dpBestValue o k vals = some x ∧ IsOptimalValue o k vals x := by
  unfold dpBestValue
  apply best_spec
  · intro y hy
    obtain ⟨r, hr, rfl⟩ := List.mem_map.1 hy
    obtain ⟨asg, hasg, he⟩ := (mem_dpFinal_state k vals r.state).1 ⟨r, hr, rfl⟩
    exact ⟨asg, hasg, by rw [he]⟩
  · intro asg hasg
    obtain ⟨r, hr, he⟩ := (mem_dpFinal_state k vals _).2 ⟨asg, hasg, rfl⟩
    exact List.mem_map.2 ⟨r, hr, by rw [he]⟩
  · intro h
    obtain ⟨r, hr, _⟩ := (mem_dpFinal_state k vals _).2 ⟨_, isAssignment_replicate hk vals.length, rfl⟩
    rw [List.map_eq_nil_iff] at h
    rw [h] at hr
    simp at hr

/-- non-vacuity, with the value computed: the best largest sum for `[1, 2, 3]` in two bins is `3` -/
example : IsOptimalValue .minLargest 2 [1, 2, 3] 3 := by
  obtain ⟨x, hx, h⟩ := dpBestValue_spec .minLargest [1, 2, 3] (k := 2) (by decide)
  have h3 : dpBestValue .minLargest 2 [1, 2, 3] = some 3 := by decide
  rw [h3] at hx
  cases hx
  exact h

theorem dpBestValue_eq_optValue (o : Objective) {k : Nat} (vals : List Nat) (hk : 0 < k) :
    dpBestValue o k vals = optValue o k vals := by
  obtain ⟨x, hx, hox⟩ := dpBestValue_spec o vals hk
  obtain ⟨y, hy, hoy⟩ := optValue_spec o vals hk
  rw [hx, hy, isOptimalValue_unique hox hoy]

/-- non-vacuity: the oracle's answer obtained from the DP model's -/
example : optValue .minLargest 2 [1, 2, 3] = some 3 := by
  rw [← dpBestValue_eq_optValue .minLargest [1, 2, 3] (by decide)]
  decide

/-! ### replaying a path -/

theorem sumL_append (l₁ l₂ : List Nat) : sumL (l₁ ++ l₂) = sumL l₁ + sumL l₂ := by
  induction l₁ with
  | nil => simp [sumL]
  | cons x xs ih => simp [sumL, ih]; omega

theorem binSum_append (v : α → Nat) (l₁ l₂ : List α) : binSum v (l₁ ++ l₂) = binSum v l₁ + binSum v l₂ := by
  simp [binSum, sumL_append]

theorem binSum_concat (v : α → Nat) (l : List α) (x : α) : binSum v (l ++ [x]) = binSum v l + v x := by
  simp only [binSum, List.map_append, List.map_cons, List.map_nil, sumL_append, sumL]
  omega

theorem map_binSum_modify (v : α → Nat) (x : α) (L : List (List α)) (i : Nat) :
    (L.modify i (· ++ [x])).map (binSum v) = (L.map (binSum v)).modify i (· + v x) := by
  induction L generalizing i with
  | nil => simp
  | cons l L ih =>
    cases i with
    | zero => simp [binSum_concat]
    | succ i => simp [ih]

theorem flatten_modify_perm (x : α) (L : List (List α)) (i : Nat) (hi : i < L.length) :
    (L.modify i (· ++ [x])).flatten.Perm (L.flatten ++ [x]) := by
  induction L generalizing i with
  | nil => simp at hi
  | cons l L ih =>
    cases i with
    | zero =>
      simp only [List.modify_zero_cons, List.flatten_cons, List.append_assoc]
      exact List.Perm.append_left l List.perm_append_comm
    | succ i =>
      simp only [List.modify_succ_cons, List.flatten_cons, List.append_assoc]
      exact List.Perm.append_left l (ih i (by simpa using hi))

/-- replaying an assignment from a consistent bins-array -/
theorem replay_spec (v : α → Nat) (items : List α) (asg : List Nat) (b : Bins α)
    (hl : asg.length = items.length) (hb : ∀ a ∈ asg, a < b.lists.length)
    (hc : b.sums = b.lists.map (binSum v)) :
    let b' := (items.zip asg).foldl (fun b (p : α × Nat) => b.add v p.1 p.2) b
    b'.lists.length = b.lists.length ∧ b'.lists.flatten.Perm (b.lists.flatten ++ items) ∧
      b'.sums = b'.lists.map (binSum v) ∧ b'.sums = sumsFrom b.sums (items.map v) asg := by
  induction items generalizing asg b with
  | nil => simp [hc]
  | cons x items ih =>
    cases asg with
    | nil => simp at hl
    | cons i asg =>
      have hi : i < b.lists.length := hb i (by simp)
      have h1 : (b.add v x i).lists.length = b.lists.length := by simp [Bins.add]
      obtain ⟨h2, h3, h4, h5⟩ := ih asg (b.add v x i) (by simpa using hl)
        (fun a ha => by rw [h1]; exact hb a (List.mem_cons_of_mem _ ha))
        (by simp only [Bins.add]; rw [map_binSum_modify, hc])
      simp only [List.zip_cons_cons, List.foldl_cons, List.map_cons, sumsFrom_cons]
      refine ⟨h2.trans h1, ?_, h4, h5⟩
      refine h3.trans ?_
      have := flatten_modify_perm x b.lists i hi
      simp only [Bins.add]
      refine (List.Perm.append_right items this).trans ?_
      simp

/-- **Every final record replays to a valid partition whose sums are the record's state (C01).** -/
theorem dpReplay_isPartition (v : α → Nat) {k : Nat} (items : List α) {r : DpRec}
    (hr : r ∈ dpFinal k (items.map v)) :
    IsPartition v items k (dpReplay v k items r.path) ∧ (dpReplay v k items r.path).sums = r.state := by
  obtain ⟨ha, hs⟩ := dpFinal_inv k _ r hr
  rw [List.length_map] at ha
  have hnew : (Bins.new k : Bins α).lists.length = k := by simp [Bins.new]
  obtain ⟨h1, h2, h3, h4⟩ := replay_spec v items r.path.reverse (Bins.new k) ha.1
    (fun a h => by rw [hnew]; exact ha.2 a h)
    (by
      simp only [Bins.new, List.map_replicate]
      rfl)
  refine ⟨⟨?_, h1.trans hnew, h3⟩, ?_⟩
  · simpa [Bins.new, dpReplay] using h2
  · rw [hs]; exact h4

/-- non-vacuity: the record `⟨[3, 3], [1, 0, 0]⟩` is a final record for the items `[1, 2, 3]`; it replays to the
    partition `[[1, 2], [3]]` -/
example : IsPartition id [1, 2, 3] 2 (dpReplay id 2 [1, 2, 3] [1, 0, 0]) ∧
    (dpReplay id 2 [1, 2, 3] [1, 0, 0]).sums = [3, 3] :=
  dpReplay_isPartition id [1, 2, 3] (r := ⟨[3, 3], [1, 0, 0]⟩) (by decide)

/-- **A minimal final record replays to an optimal partition (C02 for DP).** -/
theorem dp_optimal' (o : Objective) {k : Nat} (v : α → Nat) (items : List α) :
    ∀ r ∈ dpFinal k (items.map v),
      (∀ r' ∈ dpFinal k (items.map v), o.value r.state false ≤ o.value r'.state false) →
      IsOptimalValue o k (items.map v) (o.value (dpReplay v k items r.path).sums false) := by
  intro r hr hmin
  rw [(dpReplay_isPartition v items hr).2]
  constructor
  · obtain ⟨asg, hasg, he⟩ := (mem_dpFinal_state k _ r.state).1 ⟨r, hr, rfl⟩
    exact ⟨asg, hasg, by rw [he]⟩
  · intro asg hasg
    obtain ⟨r', hr', he⟩ := (mem_dpFinal_state k _ _).2 ⟨asg, hasg, rfl⟩
    rw [← he]; exact hmin r' hr'

/-- the statement as requested (`0 < k` is not needed: see `dp_optimal'`) -/
theorem dp_optimal (o : Objective) {k : Nat} (_hk : 0 < k) (v : α → Nat) (items : List α) :
    ∀ r ∈ dpFinal k (items.map v),
      (∀ r' ∈ dpFinal k (items.map v), o.value r.state false ≤ o.value r'.state false) →
      IsOptimalValue o k (items.map v) (o.value (dpReplay v k items r.path).sums false) :=
  dp_optimal' o v items

/-- non-vacuity: `⟨[3, 3], [1, 0, 0]⟩` is a minimal final record for `minLargest`, so its replay is optimal -/
example : IsOptimalValue .minLargest 2 ([1, 2, 3].map id)
    (Objective.minLargest.value (dpReplay id 2 [1, 2, 3] [1, 0, 0]).sums false) :=
  dp_optimal .minLargest (by decide) id [1, 2, 3] ⟨[3, 3], [1, 0, 0]⟩ (by decide) (by decide)

/-! ### partitions are assignments -/

theorem flatten_eq_nil_map_binSum (v : α → Nat) (L : List (List α)) (h : L.flatten = []) :
    L.map (binSum v) = List.replicate L.length 0 := by
  rw [List.eq_replicate_iff]
  refine ⟨by simp, ?_⟩
  intro s hs
  obtain ⟨l, hl, rfl⟩ := List.mem_map.1 hs
  have : l = [] := List.flatten_eq_nil_iff.1 h l hl
  subst this
  rfl

/-- the sums of any list of `k` bins holding exactly `items` are the sums of an assignment -/
theorem lists_sums_assignment (v : α → Nat) (items : List α) (L : List (List α)) (h : L.flatten.Perm items) :
    ∃ asg, IsAssignment L.length items.length asg ∧ sumsOf L.length (items.map v) asg = L.map (binSum v) := by
  induction items generalizing L with
  | nil =>
    refine ⟨[], isAssignment_nil _, ?_⟩
    rw [flatten_eq_nil_map_binSum v L h.eq_nil]
    simp [sumsOf]
  | cons x xs ih =>
    have hx : x ∈ L.flatten := h.mem_iff.2 (by simp)
    obtain ⟨l, hlL, hxl⟩ := List.mem_flatten.1 hx
    obtain ⟨L₁, L₂, rfl⟩ := List.append_of_mem hlL
    obtain ⟨a, b, rfl⟩ := List.append_of_mem hxl
    have hp : (L₁ ++ (a ++ b) :: L₂).flatten.Perm xs := by
      refine List.Perm.cons_inv (a := x) (List.Perm.trans ?_ h)
      simp only [List.flatten_append, List.flatten_cons]
      refine List.Perm.trans ?_ (List.perm_middle (a := x) (l₁ := L₁.flatten ++ a) (l₂ := b ++ L₂.flatten)).symm |>.trans ?_
      · simp
      · simp
    obtain ⟨asg, hasg, hs⟩ := ih _ hp
    have hlen : (L₁ ++ (a ++ b) :: L₂).length = (L₁ ++ (a ++ x :: b) :: L₂).length := by simp
    rw [hlen] at hasg hs
    refine ⟨L₁.length :: asg, isAssignment_cons hasg (by simp), ?_⟩
    rw [List.map_cons, sumsOf_eq, sumsFrom_cons, sumsFrom_modify, ← sumsOf_eq, hs]
    simp only [List.map_append, List.map_cons]
    have := modify_length_append_cons (· + v x) (L₁.map (binSum v)) (binSum v (a ++ b)) (L₂.map (binSum v))
    rw [List.length_map] at this
    rw [this]
    congr 2
    simp only [binSum, List.map_append, List.map_cons, sumL_append, sumL]
    omega

/-- **Partitions are assignments** (with equal, not merely permuted, sums). -/
theorem partition_sums_assignment (v : α → Nat) (items : List α) {k : Nat} (b : Bins α)
    (h : IsPartition v items k b) :
    ∃ asg, IsAssignment k items.length asg ∧ sumsOf k (items.map v) asg = b.sums := by
  obtain ⟨hp, hk, hc⟩ := h
  subst hk
  obtain ⟨asg, hasg, hs⟩ := lists_sums_assignment v items b.lists hp
  exact ⟨asg, hasg, hs.trans hc.symm⟩

/-- non-vacuity: the partition `[[2, 1], [3]]` of `[1, 2, 3]` -/
example : ∃ asg, IsAssignment 2 3 asg ∧ sumsOf 2 ([1, 2, 3].map id) asg = [3, 3] :=
  partition_sums_assignment id [1, 2, 3] ⟨[3, 3], [[2, 1], [3]]⟩ ⟨by decide, rfl, by decide⟩

/-- the `Perm` form asked for in the task -/
theorem partition_sums_assignment_perm (v : α → Nat) (items : List α) {k : Nat} (b : Bins α)
    (h : IsPartition v items k b) :
    ∃ asg, IsAssignment k items.length asg ∧ (sumsOf k (items.map v) asg).Perm b.sums := by
  obtain ⟨asg, hasg, hs⟩ := partition_sums_assignment v items b h
  exact ⟨asg, hasg, hs ▸ List.Perm.refl _⟩

/-- **No partition beats the optimal value.** -/
theorem optimal_le_partition {o : Objective} {k : Nat} {v : α → Nat} {items : List α} {b : Bins α} {x : Int}
    (hx : IsOptimalValue o k (items.map v) x) (h : IsPartition v items k b) :
    x ≤ o.value b.sums false := by
  obtain ⟨asg, hasg, hs⟩ := partition_sums_assignment v items b h
  rw [← hs]
  exact hx.2 asg (by simpa using hasg)

/-- non-vacuity: whatever the optimum `x` for `[1, 2, 3]` is, the partition `[[2, 1], [3]]` does not beat it -/
example (x : Int) (hx : IsOptimalValue .minLargest 2 ([1, 2, 3].map id) x) :
    x ≤ Objective.minLargest.value [3, 3] false :=
  optimal_le_partition (b := ⟨[3, 3], [[2, 1], [3]]⟩) hx ⟨by decide, rfl, by decide⟩

end Prtpy.Oracle

/-
Axiom audit (output of `#print axioms` observed with `lake env lean`):

#print axioms Prtpy.Oracle.mem_oracleFinal
  'Prtpy.Oracle.mem_oracleFinal' depends on axioms: [propext, Classical.choice, Quot.sound]
#print axioms Prtpy.Oracle.mem_dpFinal_state
  'Prtpy.Oracle.mem_dpFinal_state' depends on axioms: [propext, Classical.choice, Quot.sound]
#print axioms Prtpy.Oracle.value_perm
  'Prtpy.Oracle.value_perm' depends on axioms: [propext, Quot.sound]
#print axioms Prtpy.Oracle.optValue_spec
  'Prtpy.Oracle.optValue_spec' depends on axioms: [propext, Classical.choice, Quot.sound]
#print axioms Prtpy.Oracle.dpBestValue_spec
  'Prtpy.Oracle.dpBestValue_spec' depends on axioms: [propext, Classical.choice, Quot.sound]
#print axioms Prtpy.Oracle.dpBestValue_eq_optValue
  'Prtpy.Oracle.dpBestValue_eq_optValue' depends on axioms: [propext, Classical.choice, Quot.sound]
#print axioms Prtpy.Oracle.dpReplay_isPartition
  'Prtpy.Oracle.dpReplay_isPartition' depends on axioms: [propext, Classical.choice, Quot.sound]
#print axioms Prtpy.Oracle.dp_optimal
  'Prtpy.Oracle.dp_optimal' depends on axioms: [propext, Classical.choice, Quot.sound]
#print axioms Prtpy.Oracle.dp_optimal'
  'Prtpy.Oracle.dp_optimal'' depends on axioms: [propext, Classical.choice, Quot.sound]
#print axioms Prtpy.Oracle.partition_sums_assignment
  'Prtpy.Oracle.partition_sums_assignment' depends on axioms: [propext, Classical.choice, Quot.sound]
#print axioms Prtpy.Oracle.partition_sums_assignment_perm
  'Prtpy.Oracle.partition_sums_assignment_perm' depends on axioms: [propext, Classical.choice, Quot.sound]
#print axioms Prtpy.Oracle.optimal_le_partition
  'Prtpy.Oracle.optimal_le_partition' depends on axioms: [propext, Classical.choice, Quot.sound]
-/
