/-
  PrtpyProofs.LPT43 — Graham's 1969 bound for LPT (`greedy`):

      largest sum of LPT  ≤  (4/3 − 1/(3k)) · optimal largest sum.

  Plan of the file
  ----------------
  * `run v k xs` is the LPT loop on an already ordered list; `greedy v k items = run v k (sortDesc v items)`.
  * feasibility is expressed with `Packable T k vals` of `Prtpy/Spec.lean` ("`vals` fit into `k` bins of
    capacity `T`"); it is closed under permutations and under removing items (the *truncation lemma*).
  * (i)   `run_snoc_critical`, `IsCritical`, `exists_critical`, `greedy_critical`: the critical-item inequality
          `k · C ≤ total + (k − 1) · x`.
  * (ii)  `greedy_four_thirds_small`: the bound when the critical item is at most `OPT / 3`.
  * (iii) `two_per_bin`, `two_per_bin_count`, `large_fits`, `greedy_opt_of_large`: when every item exceeds
          `OPT / 3`, every bin of a feasible schedule holds at most two items, a least loaded bin of *any*
          partition of the other items has room for the smallest item, and therefore LPT is optimal.
  * (iv)  `greedy_four_thirds`: the full theorem.
-/
import Mathlib.Tactic.Linarith
import Prtpy
import PrtpyProofs.Part
import PrtpyProofs.Oracle
import PrtpyProofs.Scale
open Prtpy

namespace Prtpy.LPT43

variable {α : Type}

/-! ## 0. Small facts on lists of numbers -/

theorem maxL_modify_add (s : List Nat) (i a : Nat) (hi : i < s.length) :
    maxL (s.modify i (· + a)) = max (maxL s) (s[i] + a) := by
  induction s generalizing i with
  | nil => simp at hi
  | cons x xs ih =>
    cases i with
    | zero => simp only [List.modify_zero_cons, maxL, List.getElem_cons_zero]; omega
    | succ i =>
      simp only [List.modify_succ_cons, maxL, List.getElem_cons_succ]
      rw [ih i (by simpa using hi)]; omega

theorem maxL_replicate_zero (k : Nat) : maxL (List.replicate k 0) = 0 := by
  induction k with
  | zero => rfl
  | succ k ih => simp [List.replicate_succ, maxL, ih]

theorem sumL_flatten (L : List (List Nat)) : sumL L.flatten = sumL (L.map sumL) := by
  induction L with
  | nil => rfl
  | cons l L ih => simp only [List.flatten_cons, Part.sumL_append, List.map_cons, sumL, ih]

theorem le_sumL_of_mem {l : List Nat} {a : Nat} (h : a ∈ l) : a ≤ sumL l := by
  induction l with
  | nil => cases h
  | cons x xs ih =>
    simp only [sumL]
    rcases List.mem_cons.1 h with rfl | h
    · omega
    · have := ih h; omega

theorem sumL_le_length_mul {B : Nat} : ∀ l : List Nat, (∀ s ∈ l, s ≤ B) → sumL l ≤ l.length * B
  | [], _ => by simp [sumL]
  | a :: l, h => by
    have h1 := h a List.mem_cons_self
    have ih := sumL_le_length_mul l (fun s hs => h s (List.mem_cons_of_mem _ hs))
    simp only [sumL, List.length_cons, Nat.add_mul]
    omega

theorem length_mul_minL_le (s : List Nat) : s.length * minL s ≤ sumL s := by
  have := Part.length_mul_le_sumL s (minL s) 0 (fun a ha => by have := Part.minL_le ha; omega)
  simpa using this

theorem binSum_id (l : List Nat) : binSum id l = sumL l := by
  simp [binSum]

/-! ## 1. Feasibility: `Packable T k vals` -/

/-- a feasible assignment, presented as a list of `k` bins -/
theorem packable_partition {T k : Nat} {vals : List Nat} (h : Packable T k vals) :
    ∃ Q : List (List Nat), Q.length = k ∧ Q.flatten.Perm vals ∧ ∀ l ∈ Q, sumL l ≤ T := by
  obtain ⟨asg, hasg, hT⟩ := h
  obtain ⟨h1, h2, h3, h4⟩ := Oracle.replay_spec id vals asg (Bins.new k) hasg.1
    (fun a ha => by simpa using hasg.2 a ha) (Part.new_consistent id k)
  refine ⟨_, by simpa using h1, by simpa [Part.new_flat] using h2, ?_⟩
  intro l hl
  apply hT
  have : sumL l ∈ ((vals.zip asg).foldl (fun b (p : Nat × Nat) => b.add id p.1 p.2) (Bins.new k)).sums := by
    rw [h3]
    exact List.mem_map.2 ⟨l, hl, binSum_id l⟩
  rw [h4] at this
  simpa [Oracle.sumsOf_eq, Bins.new] using this

/-- conversely, a list of `k` bins with sums `≤ T` is a feasible assignment -/
theorem partition_packable {T k : Nat} {vals : List Nat} (Q : List (List Nat)) (hk : Q.length = k)
    (hp : Q.flatten.Perm vals) (hT : ∀ l ∈ Q, sumL l ≤ T) : Packable T k vals := by
  obtain ⟨asg, hasg, hs⟩ := Oracle.lists_sums_assignment id vals Q hp
  rw [hk, List.map_id] at hs
  rw [hk] at hasg
  refine ⟨asg, hasg, ?_⟩
  rw [hs]
  intro s hs'
  obtain ⟨l, hl, rfl⟩ := List.mem_map.1 hs'
  rw [binSum_id]
  exact hT l hl

theorem packable_perm {T k : Nat} {vals₁ vals₂ : List Nat} (hp : vals₁.Perm vals₂)
    (h : Packable T k vals₁) : Packable T k vals₂ := by
  obtain ⟨asg, hasg, hT⟩ := h
  obtain ⟨asg₂, h₂, he⟩ := Scale.sumsOf_perm hp asg hasg
  exact ⟨asg₂, h₂, by rw [← he]; exact hT⟩

theorem packable_mono {T T' k : Nat} {vals : List Nat} (hT : T ≤ T') (h : Packable T k vals) :
    Packable T' k vals := by
  obtain ⟨asg, hasg, h⟩ := h
  exact ⟨asg, hasg, fun s hs => Nat.le_trans (h s hs) hT⟩

theorem packable_snoc {T k : Nat} {vals : List Nat} {x : Nat} (h : Packable T k (vals ++ [x])) :
    Packable T k vals := by
  obtain ⟨asg, hasg, hT⟩ := h
  rw [List.length_append, List.length_singleton, Oracle.isAssignment_succ_iff] at hasg
  obtain ⟨asg', i, rfl, hasg', hi⟩ := hasg
  refine ⟨asg', hasg', ?_⟩
  rw [Oracle.sumsOf_concat k x i hasg'.1.symm] at hT
  intro s hs
  obtain ⟨j, hj, rfl⟩ := List.mem_iff_getElem.1 hs
  have hj' : j < ((sumsOf k vals asg').modify i (· + x)).length := by simpa using hj
  have := hT _ (List.getElem_mem hj')
  rw [List.getElem_modify] at this
  split at this <;> omega

/-- **Truncation lemma** (feasibility form): removing items keeps a schedule feasible. -/
theorem packable_prefix {T k : Nat} {vals : List Nat} (rest : List Nat) (h : Packable T k (vals ++ rest)) :
    Packable T k vals := by
  induction rest using Oracle.rev_induction with
  | nil => simpa using h
  | snoc r x ih =>
    rw [← List.append_assoc] at h
    exact ih (packable_snoc h)

/-- the capacity times the number of bins is at least the total -/
theorem packable_sum {T k : Nat} {vals : List Nat} (h : Packable T k vals) : sumL vals ≤ k * T := by
  obtain ⟨Q, hk, hp, hT⟩ := packable_partition h
  rw [← Part.sumL_perm hp, sumL_flatten, ← hk]
  have := sumL_le_length_mul (B := T) (Q.map sumL) (fun s hs => by
    obtain ⟨l, hl, rfl⟩ := List.mem_map.1 hs
    exact hT l hl)
  simpa using this

/-- the capacity is at least every item -/
theorem packable_item_le {T k : Nat} {vals : List Nat} (h : Packable T k vals) {x : Nat} (hx : x ∈ vals) :
    x ≤ T := by
  obtain ⟨Q, _, hp, hT⟩ := packable_partition h
  obtain ⟨l, hl, hxl⟩ := List.mem_flatten.1 (hp.mem_iff.2 hx)
  exact Nat.le_trans (le_sumL_of_mem hxl) (hT l hl)

/-- the optimal largest sum is a feasible capacity -/
theorem packable_of_opt {k : Nat} {vals : List Nat} {opt : Int}
    (hopt : IsOptimalValue .minLargest k vals opt) : ∃ T : Nat, (T : Int) = opt ∧ Packable T k vals := by
  obtain ⟨⟨asg, hasg, he⟩, _⟩ := hopt
  refine ⟨maxL (sumsOf k vals asg), by simpa [Objective.value] using he, asg, hasg, ?_⟩
  intro s hs
  exact Part.le_maxL hs

/-- and no smaller capacity is feasible -/
theorem opt_le_of_packable {k T : Nat} {vals : List Nat} {opt : Int}
    (hopt : IsOptimalValue .minLargest k vals opt) (h : Packable T k vals) : opt ≤ T := by
  obtain ⟨asg, hasg, hT⟩ := h
  have h1 := hopt.2 asg hasg
  have h2 : maxL (sumsOf k vals asg) ≤ T := Part.maxL_le hT
  simp only [Objective.value, Bool.false_eq_true, if_false] at h1
  omega

/-- a way to certify an optimum: an assignment with largest sum `T`, and `k · (T − 1) < total` -/
theorem isOptimal_of_total {k : Nat} {vals asg : List Nat} {T : Nat} (hasg : IsAssignment k vals.length asg)
    (hT : maxL (sumsOf k vals asg) = T) (hlow : k * (T - 1) < sumL vals) :
    IsOptimalValue .minLargest k vals T := by
  refine ⟨⟨asg, hasg, by simp [Objective.value, hT]⟩, ?_⟩
  intro asg' hasg'
  have hp : Packable (maxL (sumsOf k vals asg')) k vals := ⟨asg', hasg', fun s hs => Part.le_maxL hs⟩
  have h1 := packable_sum hp
  simp only [Objective.value, Bool.false_eq_true, if_false]
  have h2 : T ≤ maxL (sumsOf k vals asg') := by
    apply Nat.le_of_not_lt
    intro hlt
    have := Nat.mul_le_mul_left k (show maxL (sumsOf k vals asg') ≤ T - 1 by omega)
    omega
  exact_mod_cast h2

/-- **Truncation lemma** (optimum form): the optimum of a part of the items is at most the optimum of all. -/
theorem opt_prefix_le {k : Nat} {vals rest : List Nat} {o₁ o₂ : Int}
    (h₁ : IsOptimalValue .minLargest k vals o₁) (h₂ : IsOptimalValue .minLargest k (vals ++ rest) o₂) :
    o₁ ≤ o₂ := by
  obtain ⟨T, hT, hp⟩ := packable_of_opt h₂
  rw [← hT]
  exact opt_le_of_packable h₁ (packable_prefix rest hp)


/-! ## 2. The LPT loop on an ordered list -/

/-- the `for item in sorted(...)` loop of `greedy`, on a list that is already in processing order -/
def run (v : α → Nat) (k : Nat) (xs : List α) : Bins α := xs.foldl (greedyStep v) (Bins.new k)

theorem greedy_eq_run (v : α → Nat) (k : Nat) (items : List α) :
    greedy v k items = run v k (sortDesc v items) := rfl

theorem run_snoc (v : α → Nat) (k : Nat) (P : List α) (x : α) :
    run v k (P ++ [x]) = greedyStep v (run v k P) x := by
  simp [run, List.foldl_append]

theorem run_valid (v : α → Nat) {k : Nat} (hk : 0 < k) (xs : List α) : Part.Valid v k (run v k xs) xs := by
  simpa [run] using Part.greedy_fold_valid v hk xs (Bins.new k) [] (Part.valid_new v k)

theorem run_isPartition (v : α → Nat) {k : Nat} (hk : 0 < k) (xs : List α) :
    IsPartition v xs k (run v k xs) :=
  Part.valid_isPartition v (run_valid v hk xs) (List.Perm.refl _)

theorem run_sums_length (v : α → Nat) {k : Nat} (hk : 0 < k) (xs : List α) :
    (run v k xs).sums.length = k :=
  (Part.isPartition_sumL (run_isPartition v hk xs)).2

theorem run_sums_sum (v : α → Nat) {k : Nat} (hk : 0 < k) (xs : List α) :
    sumL (run v k xs).sums = binSum v xs :=
  (Part.isPartition_sumL (run_isPartition v hk xs)).1

/-- one LPT step: the new largest sum is the old one or (least sum + new item) -/
theorem run_snoc_max (v : α → Nat) {k : Nat} (hk : 0 < k) (P : List α) (x : α) :
    maxL (run v k (P ++ [x])).sums =
      max (maxL (run v k P).sums) (minL (run v k P).sums + v x) := by
  have hlen := run_sums_length v hk P
  have hne : (run v k P).sums ≠ [] := by intro h0; rw [h0] at hlen; simp at hlen; omega
  have hlt := Part.argmin_lt hne
  rw [run_snoc, greedyStep, Part.add_sums, maxL_modify_add _ _ _ hlt, Part.getElem_argmin hlt]

/-- a sorted list is a fixed point of the stable sort -/
theorem insertDesc_of_le (v : α → Nat) (x : α) (l : List α) (h : ∀ y ∈ l, v y ≤ v x) :
    insertDesc v x l = x :: l := by
  cases l with
  | nil => rfl
  | cons y ys => simp [insertDesc, h y List.mem_cons_self]

theorem sortDesc_of_sorted (v : α → Nat) (l : List α) (h : l.Pairwise (fun a c => v c ≤ v a)) :
    sortDesc v l = l := by
  induction l with
  | nil => rfl
  | cons x xs ih =>
    rw [List.pairwise_cons] at h
    rw [sortDesc, ih h.2, insertDesc_of_le v x xs h.1]

theorem greedy_of_sorted (v : α → Nat) (k : Nat) (l : List α) (h : l.Pairwise (fun a c => v c ≤ v a)) :
    greedy v k l = run v k l := by
  rw [greedy_eq_run, sortDesc_of_sorted v l h]

/-! ## 3. (i) The critical item -/

/-- **One step of LPT.**  Either the largest sum does not change, or the new item `x` has been put on a least
    loaded bin which thereby became the largest; then `k · C ≤ (total so far) + (k − 1) · x`.
    (No assumption on the order of the items.) -/
theorem run_snoc_critical (v : α → Nat) {k : Nat} (hk : 0 < k) (P : List α) (x : α) :
    maxL (run v k (P ++ [x])).sums = maxL (run v k P).sums ∨
    (maxL (run v k (P ++ [x])).sums = minL (run v k P).sums + v x ∧
      k * maxL (run v k (P ++ [x])).sums + v x ≤ binSum v (P ++ [x]) + k * v x) := by
  rw [run_snoc_max v hk P x]
  by_cases h : minL (run v k P).sums + v x ≤ maxL (run v k P).sums
  · left; omega
  · right
    refine ⟨by omega, ?_⟩
    have h1 := length_mul_minL_le (run v k P).sums
    rw [run_sums_length v hk P, run_sums_sum v hk P] at h1
    have h2 : max (maxL (run v k P).sums) (minL (run v k P).sums + v x) = minL (run v k P).sums + v x := by
      omega
    rw [h2, Part.binSum_append, Part.binSum_cons, Part.binSum_nil, Nat.mul_add]
    omega

/-- `x` is a *critical item* of the LPT run on `items`: the sorted list is `pre ++ x :: post`, the item `x` is
    put on a least loaded bin, this bin becomes the largest one, and the largest sum never changes afterwards
    (so the instance can be truncated after `x`). -/
def IsCritical (v : α → Nat) (k : Nat) (items : List α) (x : α) : Prop :=
  ∃ pre post, sortDesc v items = pre ++ x :: post ∧
    maxL (greedy v k items).sums = maxL (greedy v k (pre ++ [x])).sums ∧
    maxL (greedy v k (pre ++ [x])).sums = minL (greedy v k pre).sums + v x ∧
    k * maxL (greedy v k (pre ++ [x])).sums + v x ≤ binSum v (pre ++ [x]) + k * v x

/-- critical items on an ordered list, by induction from the right -/
theorem run_exists_critical (v : α → Nat) {k : Nat} (hk : 0 < k) (xs : List α) (hne : xs ≠ []) :
    ∃ pre x post, xs = pre ++ x :: post ∧
      maxL (run v k xs).sums = maxL (run v k (pre ++ [x])).sums ∧
      maxL (run v k (pre ++ [x])).sums = minL (run v k pre).sums + v x ∧
      k * maxL (run v k (pre ++ [x])).sums + v x ≤ binSum v (pre ++ [x]) + k * v x := by
  induction xs using Oracle.rev_induction with
  | nil => exact absurd rfl hne
  | snoc P x ih =>
    rcases run_snoc_critical v hk P x with h | ⟨h1, h2⟩
    · by_cases hP : P = []
      · subst hP
        refine ⟨[], x, [], rfl, rfl, ?_, ?_⟩
        · have h0 : maxL (run v k ([] : List α)).sums = 0 := by
            simp [run, Bins.new, maxL_replicate_zero]
          have := run_snoc_max v hk [] x
          rw [List.nil_append] at h this ⊢
          omega
        · have h0 : maxL (run v k ([] : List α)).sums = 0 := by
            simp [run, Bins.new, maxL_replicate_zero]
          rw [List.nil_append] at h ⊢
          rw [h, h0]
          simp [binSum, sumL]
      · obtain ⟨pre, y, post, rfl, e1, e2, e3⟩ := ih hP
        exact ⟨pre, y, post ++ [x], by simp, by rw [h, e1], e2, e3⟩
    · exact ⟨P, x, [], rfl, rfl, h1, h2⟩

/-- every non-empty instance has a critical item -/
theorem exists_critical {v : α → Nat} {k : Nat} {items : List α} (hk : 0 < k) (hne : items ≠ []) :
    ∃ x, IsCritical v k items x := by
  have hne' : sortDesc v items ≠ [] := by
    intro h0
    have := (Part.sortDesc_perm v items).length_eq
    rw [h0] at this
    exact hne (List.length_eq_zero_iff.1 this.symm)
  obtain ⟨pre, x, post, e, e1, e2, e3⟩ := run_exists_critical v hk (sortDesc v items) hne'
  have hs := Part.sortDesc_sorted v items
  rw [e] at hs
  have hs1 : (pre ++ [x]).Pairwise (fun a c => v c ≤ v a) := by
    have : (pre ++ x :: post) = (pre ++ [x]) ++ post := by simp
    rw [this] at hs
    exact (List.pairwise_append.1 hs).1
  have hs0 : pre.Pairwise (fun a c => v c ≤ v a) := (List.pairwise_append.1 hs1).1
  refine ⟨x, pre, post, e, ?_, ?_, ?_⟩
  · rw [greedy_eq_run, greedy_of_sorted v k _ hs1, ← e1, e]
  · rw [greedy_of_sorted v k _ hs1, greedy_of_sorted v k _ hs0]; exact e2
  · rw [greedy_of_sorted v k _ hs1]; exact e3

/-- **(i) The critical-item inequality**: `k · C ≤ total + (k − 1) · x` for a critical item `x`
    (written without subtraction). -/
theorem greedy_critical {v : α → Nat} {k : Nat} {items : List α} {x : α}
    (h : IsCritical v k items x) :
    k * maxL (greedy v k items).sums + v x ≤ binSum v items + k * v x := by
  obtain ⟨pre, post, e, e1, _, e3⟩ := h
  rw [e1]
  have hp : binSum v (pre ++ [x]) ≤ binSum v items := by
    rw [← Part.binSum_perm v (Part.sortDesc_perm v items), e]
    have : pre ++ x :: post = (pre ++ [x]) ++ post := by simp
    rw [this, Part.binSum_append v (pre ++ [x]) post]
    omega
  omega

/-- the critical item is an item -/
theorem IsCritical.mem {v : α → Nat} {k : Nat} {items : List α} {x : α} (h : IsCritical v k items x) :
    x ∈ items := by
  obtain ⟨pre, post, e, _⟩ := h
  exact (Part.sortDesc_perm v items).mem_iff.1 (by rw [e]; simp)

/-- non-vacuity: on Graham's instance `[3, 3, 2, 2, 2]`, `k = 2`, the critical item is the last `2`:
    `2 · 7 + 2 ≤ 12 + 2 · 2` -/
example : IsCritical id 2 [3, 3, 2, 2, 2] 2 := ⟨[3, 3, 2, 2], [], by decide, by decide, by decide, by decide⟩
example : 2 * maxL (greedy id 2 [3, 3, 2, 2, 2]).sums + 2 ≤ binSum id [3, 3, 2, 2, 2] + 2 * 2 :=
  greedy_critical (v := id) (x := 2) ⟨[3, 3, 2, 2], [], by decide, by decide, by decide, by decide⟩


/-! ## 4. (ii) The bound when the critical item is small -/

theorem arith_small {k C x S T : Nat} (hk : 0 < k) (h1 : k * C + x ≤ S + k * x) (h2 : S ≤ k * T)
    (h3 : 3 * x ≤ T) : 3 * k * C + T ≤ 4 * k * T := by
  obtain ⟨k', rfl⟩ : ∃ k', k = k' + 1 := ⟨k - 1, by omega⟩
  have := Nat.mul_le_mul_left k' h3
  nlinarith

theorem arith_large {k C T : Nat} (hk : 0 < k) (h : C ≤ T) : 3 * k * C + T ≤ 4 * k * T := by
  obtain ⟨k', rfl⟩ : ∃ k', k = k' + 1 := ⟨k - 1, by omega⟩
  have := Nat.mul_le_mul_left k' h
  nlinarith

/-- from the subtraction-free inequality on naturals to the integer statement of the theorem -/
theorem cast_bound {k C T : Nat} {opt : Int} (hT : (T : Int) = opt) (h : 3 * k * C + T ≤ 4 * k * T) :
    3 * k * (C : Int) ≤ (4 * k - 1) * opt := by
  rw [← hT]
  have : ((3 * k * C + T : Nat) : Int) ≤ ((4 * k * T : Nat) : Int) := by exact_mod_cast h
  push_cast at this
  linarith

/-- **(ii)** Graham's bound holds whenever a critical item is at most a third of the optimum. -/
theorem greedy_four_thirds_small {v : α → Nat} {k : Nat} {items : List α} (hk : 0 < k) {opt : Int}
    (hopt : IsOptimalValue .minLargest k (items.map v) opt) {x : α} (hc : IsCritical v k items x)
    (hx : 3 * (v x : Int) ≤ opt) :
    3 * k * (maxL (greedy v k items).sums : Int) ≤ (4 * k - 1) * opt := by
  obtain ⟨T, hT, hp⟩ := packable_of_opt hopt
  apply cast_bound hT
  exact arith_small hk (greedy_critical hc) (packable_sum hp) (by omega)

/-- non-vacuity: Graham's instance, `k = 2`, `OPT = 6`, critical item `2`, `3 · 2 ≤ 6`, LPT gives `7` -/
theorem opt_33222 : IsOptimalValue .minLargest 2 ([3, 3, 2, 2, 2].map id) 6 :=
  isOptimal_of_total (asg := [0, 0, 1, 1, 1]) (T := 6) ⟨rfl, by decide⟩ (by decide) (by decide)

example : 3 * (2 : Nat) * (maxL (greedy id 2 [3, 3, 2, 2, 2]).sums : Int) ≤ (4 * (2 : Nat) - 1) * 6 :=
  greedy_four_thirds_small (v := id) (x := 2) (by decide) opt_33222
    ⟨[3, 3, 2, 2], [], by decide, by decide, by decide, by decide⟩ (by decide)
example : maxL (greedy id 2 [3, 3, 2, 2, 2]).sums = 7 := by decide

/-! ## 5. (iii) Large items: two per bin, and LPT is optimal -/

/-- the weight of a bin in the counting argument: its cardinality plus the number of its members
    satisfying `p` -/
def mu (p : Nat → Bool) (l : List Nat) : Nat := l.length + l.countP p

theorem mu_append (p : Nat → Bool) (l₁ l₂ : List Nat) : mu p (l₁ ++ l₂) = mu p l₁ + mu p l₂ := by
  simp only [mu, List.length_append, List.countP_append]; omega

theorem mu_perm (p : Nat → Bool) {l₁ l₂ : List Nat} (h : l₁.Perm l₂) : mu p l₁ = mu p l₂ := by
  simp only [mu, h.length_eq, h.countP_eq]

theorem mu_flatten_le (p : Nat → Bool) (L : List (List Nat)) (h : ∀ l ∈ L, mu p l ≤ 2) :
    mu p L.flatten ≤ 2 * L.length := by
  induction L with
  | nil => simp [mu]
  | cons l L ih =>
    have h1 := h l List.mem_cons_self
    have h2 := ih (fun l' hl' => h l' (List.mem_cons_of_mem _ hl'))
    simp only [List.flatten_cons, mu_append, List.length_cons]
    omega

theorem le_mu_flatten (p : Nat → Bool) (L : List (List Nat)) (h : ∀ l ∈ L, 2 ≤ mu p l) :
    2 * L.length ≤ mu p L.flatten := by
  induction L with
  | nil => simp [mu]
  | cons l L ih =>
    have h1 := h l List.mem_cons_self
    have h2 := ih (fun l' hl' => h l' (List.mem_cons_of_mem _ hl'))
    simp only [List.flatten_cons, mu_append, List.length_cons]
    omega

/-- **Two per bin.**  If every item exceeds a third of the capacity, a bin holds at most two items. -/
theorem two_per_bin {T m : Nat} {l : List Nat} (hm : ∀ y ∈ l, m ≤ y) (hT : T < 3 * m) (hl : sumL l ≤ T) :
    l.length ≤ 2 := by
  match l, hm, hl with
  | [], _, _ => simp
  | [_], _, _ => simp
  | [_, _], _, _ => simp
  | y :: z :: w :: t, hm, hl =>
    have h1 := hm y (by simp)
    have h2 := hm z (by simp)
    have h3 := hm w (by simp)
    simp only [sumL] at hl
    omega

/-- ... and an item `y` that cannot share a bin with the smallest item (`y + m > T`) is alone in its bin:
    the weight `cardinality + number of such items` of a feasible bin is at most two. -/
theorem two_per_bin_mu {T m : Nat} {l : List Nat} (hm : ∀ y ∈ l, m ≤ y) (hT : T < 3 * m) (hl : sumL l ≤ T) :
    mu (fun y => decide (T < y + m)) l ≤ 2 := by
  match l, hm, hl with
  | [], _, _ => simp [mu]
  | [y], _, _ =>
    have := List.countP_le_length (p := fun y => decide (T < y + m)) (l := [y])
    simp only [mu, List.length_cons, List.length_nil] at this ⊢
    omega
  | [y, z], hm, hl =>
    have h1 := hm y (by simp)
    have h2 := hm z (by simp)
    simp only [sumL] at hl
    have e1 : ¬ T < y + m := by omega
    have e2 : ¬ T < z + m := by omega
    simp [mu, e1, e2]
  | y :: z :: w :: t, hm, hl =>
    have h1 := hm y (by simp)
    have h2 := hm z (by simp)
    have h3 := hm w (by simp)
    simp only [sumL] at hl
    omega

/-- **The counting form of "two per bin".**  If all items are `≥ m > T / 3` and fit into `k` bins of capacity
    `T`, then `(number of items) + (number of items y with y + m > T) ≤ 2k`. -/
theorem two_per_bin_count {T k m : Nat} {vals : List Nat} (h : Packable T k vals) (hm : ∀ y ∈ vals, m ≤ y)
    (hT : T < 3 * m) : vals.length + vals.countP (fun y => decide (T < y + m)) ≤ 2 * k := by
  obtain ⟨Q, hk, hp, hQ⟩ := packable_partition h
  have := mu_flatten_le (fun y => decide (T < y + m)) Q (fun l hl =>
    two_per_bin_mu (fun y hy => hm y (hp.mem_iff.1 (List.mem_flatten.2 ⟨l, hl, hy⟩))) hT (hQ l hl))
  rw [mu_perm _ hp, hk] at this
  exact this

/-- in particular there are at most `2k` items -/
theorem length_le_of_large {T k m : Nat} {vals : List Nat} (h : Packable T k vals) (hm : ∀ y ∈ vals, m ≤ y)
    (hT : T < 3 * m) : vals.length ≤ 2 * k := by
  have := two_per_bin_count h hm hT; omega

/-- **The smallest item always fits.**  Let the items `vals ++ [m]` be feasible for capacity `T`, all of them
    `≥ m > T / 3`.  Then in *every* distribution `LL` of `vals` over `k` bins some bin has room for `m`.
    (Otherwise each bin of `LL` holds two items or an item that cannot be paired, which makes
    `|vals| + #unpairable ≥ 2k`; feasibility of `vals ++ [m]` gives `|vals| + 1 + #unpairable ≤ 2k`.) -/
theorem large_fits {T k m : Nat} {vals : List Nat} (LL : List (List Nat)) (hlen : LL.length = k)
    (hperm : LL.flatten.Perm vals) (hfeas : Packable T k (vals ++ [m])) (hm : ∀ y ∈ vals, m ≤ y)
    (hT : T < 3 * m) : ∃ l ∈ LL, sumL l + m ≤ T := by
  by_cases hex : ∃ l ∈ LL, sumL l + m ≤ T
  · exact hex
  · exfalso
    have hno : ∀ l ∈ LL, T < sumL l + m := fun l hl => Nat.lt_of_not_le fun hc => hex ⟨l, hl, hc⟩
    have hmT : m ≤ T := packable_item_le hfeas (by simp)
    have h1 := le_mu_flatten (fun y => decide (T < y + m)) LL (fun l hl => by
      have := hno l hl
      match l, this with
      | [], this => simp only [sumL] at this; omega
      | [y], this =>
        simp only [sumL] at this
        have e : T < y + m := by omega
        simp [mu, e]
      | y :: z :: t, _ => simp only [mu, List.length_cons]; omega)
    rw [mu_perm _ hperm, hlen] at h1
    have h2 := two_per_bin_count hfeas (m := m) (fun y hy => by
      rcases List.mem_append.1 hy with hy | hy
      · exact hm y hy
      · simp at hy; omega) hT
    simp only [mu, List.length_append, List.countP_append, List.length_cons, List.length_nil] at h1 h2
    omega

/-- the same for the LPT loop: if the items `P ++ [x]` are feasible for `T` and all `≥ v x > T / 3`, the least
    loaded bin after `P` has room for `x` -/
theorem run_snoc_fits {v : α → Nat} {k T : Nat} (hk : 0 < k) {P : List α} {x : α}
    (hs : ∀ a ∈ P, v x ≤ v a) (hfeas : Packable T k ((P ++ [x]).map v)) (hT : T < 3 * v x) :
    minL (run v k P).sums + v x ≤ T := by
  obtain ⟨h1, h2, h3⟩ := run_valid v hk P
  obtain ⟨l', hl', hfit⟩ := large_fits (T := T) (k := k) (m := v x) (vals := P.map v)
    ((run v k P).lists.map (List.map v)) (by simpa using h2)
    (by rw [← List.map_flatten]; exact h1.map v) (by simpa using hfeas)
    (fun y hy => by obtain ⟨a, ha, rfl⟩ := List.mem_map.1 hy; exact hs a ha) hT
  obtain ⟨l, hl, rfl⟩ := List.mem_map.1 hl'
  have hmem : binSum v l ∈ (run v k P).sums := by
    rw [h3]; exact List.mem_map.2 ⟨l, hl, rfl⟩
  have := Part.minL_le hmem
  have e : binSum v l = sumL (l.map v) := rfl
  omega

/-- LPT on an ordered list of large items stays within every feasible capacity -/
theorem run_le_of_large {v : α → Nat} {k T : Nat} (hk : 0 < k) :
    ∀ xs : List α, xs.Pairwise (fun a c => v c ≤ v a) → Packable T k (xs.map v) →
      (∀ x ∈ xs, T < 3 * v x) → maxL (run v k xs).sums ≤ T := by
  intro xs
  induction xs using Oracle.rev_induction with
  | nil => intro _ _ _; simp [run, Bins.new, maxL_replicate_zero]
  | snoc P x ih =>
    intro hs hf hb
    obtain ⟨hs1, _, hs2⟩ := List.pairwise_append.1 hs
    have hfP : Packable T k (P.map v) := by
      rw [List.map_append] at hf; exact packable_prefix _ hf
    have h1 := ih hs1 hfP (fun y hy => hb y (by simp [hy]))
    have h2 := run_snoc_fits hk (fun a ha => hs2 a ha x (by simp)) hf (hb x (by simp))
    rw [run_snoc_max v hk P x]
    omega

/-- **(iii) LPT is optimal when every item exceeds a third of the optimum.** -/
theorem greedy_opt_of_large {v : α → Nat} {k : Nat} {items : List α} (hk : 0 < k) {opt : Int}
    (hopt : IsOptimalValue .minLargest k (items.map v) opt) (hbig : ∀ x ∈ items, opt < 3 * (v x : Int)) :
    (maxL (greedy v k items).sums : Int) = opt := by
  obtain ⟨T, hT, hp⟩ := packable_of_opt hopt
  have hperm := Part.sortDesc_perm v items
  have h1 := run_le_of_large (v := v) (T := T) hk (sortDesc v items) (Part.sortDesc_sorted v items)
    (packable_perm (hperm.map v).symm hp)
    (fun x hx => by have := hbig x (hperm.mem_iff.1 hx); omega)
  have h2 := Oracle.optimal_le_partition hopt (Part.greedy_isPartition (v := v) (items := items) hk)
  simp only [Objective.value, Bool.false_eq_true, if_false] at h2
  rw [greedy_eq_run]
  rw [greedy_eq_run] at h2
  omega

/-- non-vacuity: `[5, 4, 3, 3]` on two bins: `OPT = 8`, every item exceeds `8 / 3`, LPT finds `8` -/
theorem opt_5433 : IsOptimalValue .minLargest 2 ([5, 4, 3, 3].map id) 8 :=
  isOptimal_of_total (asg := [0, 1, 0, 1]) (T := 8) ⟨rfl, by decide⟩ (by decide) (by decide)

example : (maxL (greedy id 2 [5, 4, 3, 3]).sums : Int) = 8 :=
  greedy_opt_of_large (v := id) (by decide) opt_5433 (by decide)

/-! ## 6. (iv) Graham's theorem -/

/-- the theorem for the LPT loop on an ordered list, for every feasible capacity `T`, without subtraction -/
theorem run_four_thirds {v : α → Nat} {k T : Nat} (hk : 0 < k) :
    ∀ xs : List α, xs.Pairwise (fun a c => v c ≤ v a) → Packable T k (xs.map v) →
      3 * k * maxL (run v k xs).sums + T ≤ 4 * k * T := by
  intro xs
  induction xs using Oracle.rev_induction with
  | nil =>
    intro _ _
    have h0 : maxL (run v k ([] : List α)).sums = 0 := by simp [run, Bins.new, maxL_replicate_zero]
    rw [h0]
    exact arith_large hk (Nat.zero_le _)
  | snoc P x ih =>
    intro hs hf
    obtain ⟨hs1, _, hs2⟩ := List.pairwise_append.1 hs
    have hfP : Packable T k (P.map v) := by
      rw [List.map_append] at hf; exact packable_prefix _ hf
    have hih := ih hs1 hfP
    rcases run_snoc_critical v hk P x with h | ⟨h1, h2⟩
    · rw [h]; exact hih
    · by_cases hx : 3 * v x ≤ T
      · -- the critical item is small: the averaging argument
        exact arith_small hk h2 (packable_sum hf) hx
      · -- the critical (= smallest) item is large: it fits
        have := run_snoc_fits hk (fun a ha => hs2 a ha x (by simp)) hf (by omega)
        exact arith_large hk (by omega)

/-- **(iv) Graham 1969.**  For `k ≥ 1` bins, the largest sum of LPT is at most `4/3 − 1/(3k)` times the optimal
    largest sum. -/
theorem greedy_four_thirds {v : α → Nat} {k : Nat} {items : List α} (hk : 0 < k) {opt : Int}
    (hopt : IsOptimalValue .minLargest k (items.map v) opt) :
    3 * k * (maxL (greedy v k items).sums : Int) ≤ (4 * k - 1) * opt := by
  obtain ⟨T, hT, hp⟩ := packable_of_opt hopt
  apply cast_bound hT
  rw [greedy_eq_run]
  exact run_four_thirds hk (sortDesc v items) (Part.sortDesc_sorted v items)
    (packable_perm ((Part.sortDesc_perm v items).map v).symm hp)

/-- non-vacuity and tightness: Graham's instance for `k = 2`: `[3, 3, 2, 2, 2]`, `OPT = 6`, LPT `= 7`,
    `3 · 2 · 7 = 42 = 7 · 6` -/
example : 3 * (2 : Nat) * (maxL (greedy id 2 [3, 3, 2, 2, 2]).sums : Int) ≤ (4 * (2 : Nat) - 1) * 6 :=
  greedy_four_thirds (v := id) (by decide) opt_33222
example : 3 * (2 : Nat) * (maxL (greedy id 2 [3, 3, 2, 2, 2]).sums : Int) = (4 * (2 : Nat) - 1) * 6 := by decide

end Prtpy.LPT43

/-
Axiom audit (Lean 4.33.0; output observed with the commands appended to a copy of this file):

#print axioms Prtpy.LPT43.greedy_four_thirds
  -- 'Prtpy.LPT43.greedy_four_thirds' depends on axioms: [propext, Classical.choice, Quot.sound]
#print axioms Prtpy.LPT43.greedy_opt_of_large
  -- 'Prtpy.LPT43.greedy_opt_of_large' depends on axioms: [propext, Classical.choice, Quot.sound]
#print axioms Prtpy.LPT43.greedy_critical
  -- 'Prtpy.LPT43.greedy_critical' depends on axioms: [propext, Quot.sound]
#print axioms Prtpy.LPT43.exists_critical
  -- 'Prtpy.LPT43.exists_critical' depends on axioms: [propext, Classical.choice, Quot.sound]
#print axioms Prtpy.LPT43.greedy_four_thirds_small
  -- 'Prtpy.LPT43.greedy_four_thirds_small' depends on axioms: [propext, Classical.choice, Quot.sound]
#print axioms Prtpy.LPT43.large_fits
  -- 'Prtpy.LPT43.large_fits' depends on axioms: [propext, Classical.choice, Quot.sound]
#print axioms Prtpy.LPT43.two_per_bin_count
  -- 'Prtpy.LPT43.two_per_bin_count' depends on axioms: [propext, Classical.choice, Quot.sound]
#print axioms Prtpy.LPT43.opt_prefix_le
  -- 'Prtpy.LPT43.opt_prefix_le' depends on axioms: [propext, Classical.choice, Quot.sound]
-/
