-- NOTE (round 7): the exact ratio (3k-1)/(4k-2) is proved for EVERY k in PrtpyProofs/MaxMin5.lean (`MaxMin5.greedy_maxmin`); what this file calls open is closed there.
/-
  PrtpyProofs.LPT43 — Graham's 1969 bound for LPT (`greedy`):

      largest sum of LPT  ≤  (4/3 − 1/(3k)) · optimal largest sum.

  Plan of the file
  ----------------
  * `run v k xs` is the LPT loop on an already ordered list; `greedy v k items = run v k (sortDesc v items)`.
  * feasibility is expressed with `Packable T k vals` of `Prtpy/Spec.lean` ("`vals` fit into `k` bins of
    capacity `T`"); it is closed under permutations and under removing items (the *truncation lemma*).
  * (i)   `run_snoc_critical`, `IsCritical`, `exists_critical`, `greedy_critical`: the critical-item inequality
          `k · C ≤ total + (k − 1) · x`.
  * (ii)  `greedy_four_thirds_small`: the bound when the critical item is at most `OPT / 3`.
  * (iii) `two_per_bin`, `two_per_bin_count`, `large_fits`, `greedy_opt_of_large`: when every item exceeds
          `OPT / 3`, every bin of a feasible schedule holds at most two items, a least loaded bin of *any*
          partition of the other items has room for the smallest item, and therefore LPT is optimal.
  * (iv)  `greedy_four_thirds`: the full theorem.
  * §7 (second goal, partial): the max-min guarantee.  `greedy_maxmin_spread`
          (`k · OPT ≤ k · min + (k − 1) · y`, `y` the `(k+1)`-th largest value), hence the exact
          Deuermeyer–Friesen–Langston / Csirik–Kellerer–Woeginger bound `(4k − 2) · min ≥ (3k − 1) · OPT` when
          `(4k − 2) · y ≤ k · OPT` (`greedy_maxmin_partial_small`), and unconditionally
          `(2k − 1) · min ≥ k · OPT` (`greedy_maxmin_partial_half`).  The exact bound in the remaining case
          (`k + 1` items above `OPT / 4`) is open.

  The proof of (iv) is an induction over the prefixes of the sorted list (`run_four_thirds`), which makes the
  classical "truncate after the critical item" step implicit: when the last (= smallest) item `x` of a prefix
  raises the largest sum, either `3x ≤ T` and the averaging argument applies, or `3x > T` and `large_fits`
  shows that it fits below `T`.  `large_fits` is a pure counting statement about *arbitrary* partitions; no
  description of the shape of the LPT schedule is needed.
-/
import Mathlib.Tactic.Linarith
import Prtpy
import PrtpyProofs.Part
import PrtpyProofs.Oracle
import PrtpyProofs.Scale
open Prtpy

namespace Prtpy.LPT43

variable {α : Type}

/-! ## 0. Small facts on lists of numbers -/

theorem maxL_modify_add (s : List Nat) (i a : Nat) (hi : i < s.length) :
    maxL (s.modify i (· + a)) = max (maxL s) (s[i] + a) := by
  induction s generalizing i with
  | nil => simp at hi
  | cons x xs ih =>
    cases i with
    | zero => simp only [List.modify_zero_cons, maxL, List.getElem_cons_zero]; omega
    | succ i =>
      simp only [List.modify_succ_cons, maxL, List.getElem_cons_succ]
      rw [ih i (by simpa using hi)]; omega

theorem maxL_replicate_zero (k : Nat) : maxL (List.replicate k 0) = 0 := by
  induction k with
  | zero => rfl
  | succ k ih => simp [List.replicate_succ, maxL, ih]

theorem sumL_flatten (L : List (List Nat)) : sumL L.flatten = sumL (L.map sumL) := by
  induction L with
  | nil => rfl
  | cons l L ih => simp only [List.flatten_cons, Part.sumL_append, List.map_cons, sumL, ih]

theorem le_sumL_of_mem {l : List Nat} {a : Nat} (h : a ∈ l) : a ≤ sumL l := by
  induction l with
  | nil => cases h
  | cons x xs ih =>
    simp only [sumL]
    rcases List.mem_cons.1 h with rfl | h
    · omega
    · have := ih h; omega

theorem sumL_le_length_mul {B : Nat} : ∀ l : List Nat, (∀ s ∈ l, s ≤ B) → sumL l ≤ l.length * B
  | [], _ => by simp [sumL]
  | a :: l, h => by
    have h1 := h a List.mem_cons_self
    have ih := sumL_le_length_mul l (fun s hs => h s (List.mem_cons_of_mem _ hs))
    simp only [sumL, List.length_cons, Nat.add_mul]
    omega

theorem length_mul_minL_le (s : List Nat) : s.length * minL s ≤ sumL s := by
  have := Part.length_mul_le_sumL s (minL s) 0 (fun a ha => by have := Part.minL_le ha; omega)
  simpa using this

theorem binSum_id (l : List Nat) : binSum id l = sumL l := by
  simp [binSum]

/-! ## 1. Feasibility: `Packable T k vals` -/

/-- a feasible assignment, presented as a list of `k` bins -/
theorem packable_partition {T k : Nat} {vals : List Nat} (h : Packable T k vals) :
    ∃ Q : List (List Nat), Q.length = k ∧ Q.flatten.Perm vals ∧ ∀ l ∈ Q, sumL l ≤ T := by
  obtain ⟨asg, hasg, hT⟩ := h
  obtain ⟨h1, h2, h3, h4⟩ := Oracle.replay_spec id vals asg (Bins.new k) hasg.1
    (fun a ha => by simpa using hasg.2 a ha) (Part.new_consistent id k)
  refine ⟨_, by simpa using h1, by simpa [Part.new_flat] using h2, ?_⟩
  intro l hl
  apply hT
  have : sumL l ∈ ((vals.zip asg).foldl (fun b (p : Nat × Nat) => b.add id p.1 p.2) (Bins.new k)).sums := by
    rw [h3]
    exact List.mem_map.2 ⟨l, hl, binSum_id l⟩
  rw [h4] at this
  simpa [Oracle.sumsOf_eq, Bins.new] using this

/-- conversely, a list of `k` bins with sums `≤ T` is a feasible assignment -/
theorem partition_packable {T k : Nat} {vals : List Nat} (Q : List (List Nat)) (hk : Q.length = k)
    (hp : Q.flatten.Perm vals) (hT : ∀ l ∈ Q, sumL l ≤ T) : Packable T k vals := by
  obtain ⟨asg, hasg, hs⟩ := Oracle.lists_sums_assignment id vals Q hp
  rw [hk, List.map_id] at hs
  rw [hk] at hasg
  refine ⟨asg, hasg, ?_⟩
  rw [hs]
  intro s hs'
  obtain ⟨l, hl, rfl⟩ := List.mem_map.1 hs'
  rw [binSum_id]
  exact hT l hl

theorem packable_perm {T k : Nat} {vals₁ vals₂ : List Nat} (hp : vals₁.Perm vals₂)
    (h : Packable T k vals₁) : Packable T k vals₂ := by
  obtain ⟨asg, hasg, hT⟩ := h
  obtain ⟨asg₂, h₂, he⟩ := Scale.sumsOf_perm hp asg hasg
  exact ⟨asg₂, h₂, by rw [← he]; exact hT⟩

theorem packable_mono {T T' k : Nat} {vals : List Nat} (hT : T ≤ T') (h : Packable T k vals) :
    Packable T' k vals := by
  obtain ⟨asg, hasg, h⟩ := h
  exact ⟨asg, hasg, fun s hs => Nat.le_trans (h s hs) hT⟩

theorem packable_snoc {T k : Nat} {vals : List Nat} {x : Nat} (h : Packable T k (vals ++ [x])) :
    Packable T k vals := by
  obtain ⟨asg, hasg, hT⟩ := h
  rw [List.length_append, List.length_singleton, Oracle.isAssignment_succ_iff] at hasg
  obtain ⟨asg', i, rfl, hasg', hi⟩ := hasg
  refine ⟨asg', hasg', ?_⟩
  rw [Oracle.sumsOf_concat k x i hasg'.1.symm] at hT
  intro s hs
  obtain ⟨j, hj, rfl⟩ := List.mem_iff_getElem.1 hs
  have hj' : j < ((sumsOf k vals asg').modify i (· + x)).length := by simpa using hj
  have := hT _ (List.getElem_mem hj')
  rw [List.getElem_modify] at this
  split at this <;> omega

/-- **Truncation lemma** (feasibility form): removing items keeps a schedule feasible. -/
theorem packable_prefix {T k : Nat} {vals : List Nat} (rest : List Nat) (h : Packable T k (vals ++ rest)) :
    Packable T k vals := by
  induction rest using Oracle.rev_induction with
  | nil => simpa using h
  | snoc r x ih =>
    rw [← List.append_assoc] at h
    exact ih (packable_snoc h)

/-- the capacity times the number of bins is at least the total -/
theorem packable_sum {T k : Nat} {vals : List Nat} (h : Packable T k vals) : sumL vals ≤ k * T := by
  obtain ⟨Q, hk, hp, hT⟩ := packable_partition h
  rw [← Part.sumL_perm hp, sumL_flatten, ← hk]
  have := sumL_le_length_mul (B := T) (Q.map sumL) (fun s hs => by
    obtain ⟨l, hl, rfl⟩ := List.mem_map.1 hs
    exact hT l hl)
  simpa using this

/-- the capacity is at least every item -/
theorem packable_item_le {T k : Nat} {vals : List Nat} (h : Packable T k vals) {x : Nat} (hx : x ∈ vals) :
    x ≤ T := by
  obtain ⟨Q, _, hp, hT⟩ := packable_partition h
  obtain ⟨l, hl, hxl⟩ := List.mem_flatten.1 (hp.mem_iff.2 hx)
  exact Nat.le_trans (le_sumL_of_mem hxl) (hT l hl)

/-- the optimal largest sum is a feasible capacity -/
theorem packable_of_opt {k : Nat} {vals : List Nat} {opt : Int}
    (hopt : IsOptimalValue .minLargest k vals opt) : ∃ T : Nat, (T : Int) = opt ∧ Packable T k vals := by
  obtain ⟨⟨asg, hasg, he⟩, _⟩ := hopt
  refine ⟨maxL (sumsOf k vals asg), by simpa [Objective.value] using he, asg, hasg, ?_⟩
  intro s hs
  exact Part.le_maxL hs

/-- and no smaller capacity is feasible -/
theorem opt_le_of_packable {k T : Nat} {vals : List Nat} {opt : Int}
    (hopt : IsOptimalValue .minLargest k vals opt) (h : Packable T k vals) : opt ≤ T := by
  obtain ⟨asg, hasg, hT⟩ := h
  have h1 := hopt.2 asg hasg
  have h2 : maxL (sumsOf k vals asg) ≤ T := Part.maxL_le hT
  simp only [Objective.value, Bool.false_eq_true, if_false] at h1
  omega

/-- a way to certify an optimum: an assignment with largest sum `T`, and `k · (T − 1) < total` -/
theorem isOptimal_of_total {k : Nat} {vals asg : List Nat} {T : Nat} (hasg : IsAssignment k vals.length asg)
    (hT : maxL (sumsOf k vals asg) = T) (hlow : k * (T - 1) < sumL vals) :
    IsOptimalValue .minLargest k vals T := by
  refine ⟨⟨asg, hasg, by simp [Objective.value, hT]⟩, ?_⟩
  intro asg' hasg'
  have hp : Packable (maxL (sumsOf k vals asg')) k vals := ⟨asg', hasg', fun s hs => Part.le_maxL hs⟩
  have h1 := packable_sum hp
  simp only [Objective.value, Bool.false_eq_true, if_false]
  have h2 : T ≤ maxL (sumsOf k vals asg') := by
    apply Nat.le_of_not_lt
    intro hlt
    have := Nat.mul_le_mul_left k (show maxL (sumsOf k vals asg') ≤ T - 1 by omega)
    omega
  exact_mod_cast h2

/-- **Truncation lemma** (optimum form): the optimum of a part of the items is at most the optimum of all. -/
theorem opt_prefix_le {k : Nat} {vals rest : List Nat} {o₁ o₂ : Int}
    (h₁ : IsOptimalValue .minLargest k vals o₁) (h₂ : IsOptimalValue .minLargest k (vals ++ rest) o₂) :
    o₁ ≤ o₂ := by
  obtain ⟨T, hT, hp⟩ := packable_of_opt h₂
  rw [← hT]
  exact opt_le_of_packable h₁ (packable_prefix rest hp)


/-! ## 2. The LPT loop on an ordered list -/

/-- the `for item in sorted(...)` loop of `greedy`, on a list that is already in processing order -/
def run (v : α → Nat) (k : Nat) (xs : List α) : Bins α := xs.foldl (greedyStep v) (Bins.new k)

theorem greedy_eq_run (v : α → Nat) (k : Nat) (items : List α) :
    greedy v k items = run v k (sortDesc v items) := rfl

theorem run_snoc (v : α → Nat) (k : Nat) (P : List α) (x : α) :
    run v k (P ++ [x]) = greedyStep v (run v k P) x := by
  simp [run, List.foldl_append]

theorem run_valid (v : α → Nat) {k : Nat} (hk : 0 < k) (xs : List α) : Part.Valid v k (run v k xs) xs := by
  simpa [run] using Part.greedy_fold_valid v hk xs (Bins.new k) [] (Part.valid_new v k)

theorem run_isPartition (v : α → Nat) {k : Nat} (hk : 0 < k) (xs : List α) :
    IsPartition v xs k (run v k xs) :=
  Part.valid_isPartition v (run_valid v hk xs) (List.Perm.refl _)

theorem run_sums_length (v : α → Nat) {k : Nat} (hk : 0 < k) (xs : List α) :
    (run v k xs).sums.length = k :=
  (Part.isPartition_sumL (run_isPartition v hk xs)).2

theorem run_sums_sum (v : α → Nat) {k : Nat} (hk : 0 < k) (xs : List α) :
    sumL (run v k xs).sums = binSum v xs :=
  (Part.isPartition_sumL (run_isPartition v hk xs)).1

/-- one LPT step: the new largest sum is the old one or (least sum + new item) -/
theorem run_snoc_max (v : α → Nat) {k : Nat} (hk : 0 < k) (P : List α) (x : α) :
    maxL (run v k (P ++ [x])).sums =
      max (maxL (run v k P).sums) (minL (run v k P).sums + v x) := by
  have hlen := run_sums_length v hk P
  have hne : (run v k P).sums ≠ [] := by intro h0; rw [h0] at hlen; simp at hlen; omega
  have hlt := Part.argmin_lt hne
  rw [run_snoc, greedyStep, Part.add_sums, maxL_modify_add _ _ _ hlt, Part.getElem_argmin hlt]

/-- a sorted list is a fixed point of the stable sort -/
theorem insertDesc_of_le (v : α → Nat) (x : α) (l : List α) (h : ∀ y ∈ l, v y ≤ v x) :
    insertDesc v x l = x :: l := by
  cases l with
  | nil => rfl
  | cons y ys => simp [insertDesc, h y List.mem_cons_self]

theorem sortDesc_of_sorted (v : α → Nat) (l : List α) (h : l.Pairwise (fun a c => v c ≤ v a)) :
    sortDesc v l = l := by
  induction l with
  | nil => rfl
  | cons x xs ih =>
    rw [List.pairwise_cons] at h
    rw [sortDesc, ih h.2, insertDesc_of_le v x xs h.1]

theorem greedy_of_sorted (v : α → Nat) (k : Nat) (l : List α) (h : l.Pairwise (fun a c => v c ≤ v a)) :
    greedy v k l = run v k l := by
  rw [greedy_eq_run, sortDesc_of_sorted v l h]

/-! ## 3. (i) The critical item -/

/-- **One step of LPT.**  Either the largest sum does not change, or the new item `x` has been put on a least
    loaded bin which thereby became the largest; then `k · C ≤ (total so far) + (k − 1) · x`.
    (No assumption on the order of the items.) -/
theorem run_snoc_critical (v : α → Nat) {k : Nat} (hk : 0 < k) (P : List α) (x : α) :
    maxL (run v k (P ++ [x])).sums = maxL (run v k P).sums ∨
    (maxL (run v k (P ++ [x])).sums = minL (run v k P).sums + v x ∧
      k * maxL (run v k (P ++ [x])).sums + v x ≤ binSum v (P ++ [x]) + k * v x) := by
  rw [run_snoc_max v hk P x]
  by_cases h : minL (run v k P).sums + v x ≤ maxL (run v k P).sums
  · left; omega
  · right
    refine ⟨by omega, ?_⟩
    have h1 := length_mul_minL_le (run v k P).sums
    rw [run_sums_length v hk P, run_sums_sum v hk P] at h1
    have h2 : max (maxL (run v k P).sums) (minL (run v k P).sums + v x) = minL (run v k P).sums + v x := by
      omega
    rw [h2, Part.binSum_append, Part.binSum_cons, Part.binSum_nil, Nat.mul_add]
    omega

/-- `x` is a *critical item* of the LPT run on `items`: the sorted list is `pre ++ x :: post`, the item `x` is
    put on a least loaded bin, this bin becomes the largest one, and the largest sum never changes afterwards
    (so the instance can be truncated after `x`). -/
def IsCritical (v : α → Nat) (k : Nat) (items : List α) (x : α) : Prop :=
  ∃ pre post, sortDesc v items = pre ++ x :: post ∧
    maxL (greedy v k items).sums = maxL (greedy v k (pre ++ [x])).sums ∧
    maxL (greedy v k (pre ++ [x])).sums = minL (greedy v k pre).sums + v x ∧
    k * maxL (greedy v k (pre ++ [x])).sums + v x ≤ binSum v (pre ++ [x]) + k * v x

/-- critical items on an ordered list, by induction from the right -/
theorem run_exists_critical (v : α → Nat) {k : Nat} (hk : 0 < k) (xs : List α) (hne : xs ≠ []) :
    ∃ pre x post, xs = pre ++ x :: post ∧
      maxL (run v k xs).sums = maxL (run v k (pre ++ [x])).sums ∧
      maxL (run v k (pre ++ [x])).sums = minL (run v k pre).sums + v x ∧
      k * maxL (run v k (pre ++ [x])).sums + v x ≤ binSum v (pre ++ [x]) + k * v x := by
  induction xs using Oracle.rev_induction with
  | nil => exact absurd rfl hne
  | snoc P x ih =>
    rcases run_snoc_critical v hk P x with h | ⟨h1, h2⟩
    · by_cases hP : P = []
      · subst hP
        refine ⟨[], x, [], rfl, rfl, ?_, ?_⟩
        · have h0 : maxL (run v k ([] : List α)).sums = 0 := by
            simp [run, Bins.new, maxL_replicate_zero]
          have := run_snoc_max v hk [] x
          rw [List.nil_append] at h this ⊢
          omega
        · have h0 : maxL (run v k ([] : List α)).sums = 0 := by
            simp [run, Bins.new, maxL_replicate_zero]
          rw [List.nil_append] at h ⊢
          rw [h, h0]
          simp [binSum, sumL]
      · obtain ⟨pre, y, post, rfl, e1, e2, e3⟩ := ih hP
        exact ⟨pre, y, post ++ [x], by simp, by rw [h, e1], e2, e3⟩
    · exact ⟨P, x, [], rfl, rfl, h1, h2⟩

/-- every non-empty instance has a critical item -/
theorem exists_critical {v : α → Nat} {k : Nat} {items : List α} (hk : 0 < k) (hne : items ≠ []) :
    ∃ x, IsCritical v k items x := by
  have hne' : sortDesc v items ≠ [] := by
    intro h0
    have := (Part.sortDesc_perm v items).length_eq
    rw [h0] at this
    exact hne (List.length_eq_zero_iff.1 this.symm)
  obtain ⟨pre, x, post, e, e1, e2, e3⟩ := run_exists_critical v hk (sortDesc v items) hne'
  have hs := Part.sortDesc_sorted v items
  rw [e] at hs
  have hs1 : (pre ++ [x]).Pairwise (fun a c => v c ≤ v a) := by
    have : (pre ++ x :: post) = (pre ++ [x]) ++ post := by simp
    rw [this] at hs
    exact (List.pairwise_append.1 hs).1
  have hs0 : pre.Pairwise (fun a c => v c ≤ v a) := (List.pairwise_append.1 hs1).1
  refine ⟨x, pre, post, e, ?_, ?_, ?_⟩
  · rw [greedy_eq_run, greedy_of_sorted v k _ hs1, ← e1, e]
  · rw [greedy_of_sorted v k _ hs1, greedy_of_sorted v k _ hs0]; exact e2
  · rw [greedy_of_sorted v k _ hs1]; exact e3

/-- **(i) The critical-item inequality**: `k · C ≤ total + (k − 1) · x` for a critical item `x`
    (written without subtraction). -/
theorem greedy_critical {v : α → Nat} {k : Nat} {items : List α} {x : α}
    (h : IsCritical v k items x) :
    k * maxL (greedy v k items).sums + v x ≤ binSum v items + k * v x := by
  obtain ⟨pre, post, e, e1, _, e3⟩ := h
  rw [e1]
  have hp : binSum v (pre ++ [x]) ≤ binSum v items := by
    rw [← Part.binSum_perm v (Part.sortDesc_perm v items), e]
    have : pre ++ x :: post = (pre ++ [x]) ++ post := by simp
    rw [this, Part.binSum_append v (pre ++ [x]) post]
    omega
  omega

/-- the critical item is an item -/
theorem IsCritical.mem {v : α → Nat} {k : Nat} {items : List α} {x : α} (h : IsCritical v k items x) :
    x ∈ items := by
  obtain ⟨pre, post, e, _⟩ := h
  exact (Part.sortDesc_perm v items).mem_iff.1 (by rw [e]; simp)

/-- non-vacuity: on Graham's instance `[3, 3, 2, 2, 2]`, `k = 2`, the critical item is the last `2`:
    `2 · 7 + 2 ≤ 12 + 2 · 2` -/
example : IsCritical id 2 [3, 3, 2, 2, 2] 2 := ⟨[3, 3, 2, 2], [], by decide, by decide, by decide, by decide⟩
example : 2 * maxL (greedy id 2 [3, 3, 2, 2, 2]).sums + 2 ≤ binSum id [3, 3, 2, 2, 2] + 2 * 2 :=
  greedy_critical (v := id) (x := 2) ⟨[3, 3, 2, 2], [], by decide, by decide, by decide, by decide⟩


/-! ## 4. (ii) The bound when the critical item is small -/

theorem arith_small {k C x S T : Nat} (hk : 0 < k) (h1 : k * C + x ≤ S + k * x) (h2 : S ≤ k * T)
    (h3 : 3 * x ≤ T) : 3 * k * C + T ≤ 4 * k * T := by
  obtain ⟨k', rfl⟩ : ∃ k', k = k' + 1 := ⟨k - 1, by omega⟩
  have := Nat.mul_le_mul_left k' h3
  nlinarith

theorem arith_large {k C T : Nat} (hk : 0 < k) (h : C ≤ T) : 3 * k * C + T ≤ 4 * k * T := by
  obtain ⟨k', rfl⟩ : ∃ k', k = k' + 1 := ⟨k - 1, by omega⟩
  have := Nat.mul_le_mul_left k' h
  nlinarith

/-- from the subtraction-free inequality on naturals to the integer statement of the theorem -/
theorem cast_bound {k C T : Nat} {opt : Int} (hT : (T : Int) = opt) (h : 3 * k * C + T ≤ 4 * k * T) :
    3 * k * (C : Int) ≤ (4 * k - 1) * opt := by
  rw [← hT]
  have : ((3 * k * C + T : Nat) : Int) ≤ ((4 * k * T : Nat) : Int) := by exact_mod_cast h
  push_cast at this
  linarith

/-- **(ii)** Graham's bound holds whenever a critical item is at most a third of the optimum. -/
theorem greedy_four_thirds_small {v : α → Nat} {k : Nat} {items : List α} (hk : 0 < k) {opt : Int}
    (hopt : IsOptimalValue .minLargest k (items.map v) opt) {x : α} (hc : IsCritical v k items x)
    (hx : 3 * (v x : Int) ≤ opt) :
    3 * k * (maxL (greedy v k items).sums : Int) ≤ (4 * k - 1) * opt := by
  obtain ⟨T, hT, hp⟩ := packable_of_opt hopt
  apply cast_bound hT
  exact arith_small hk (greedy_critical hc) (packable_sum hp) (by omega)

/-- non-vacuity: Graham's instance, `k = 2`, `OPT = 6`, critical item `2`, `3 · 2 ≤ 6`, LPT gives `7` -/
theorem opt_33222 : IsOptimalValue .minLargest 2 ([3, 3, 2, 2, 2].map id) 6 :=
  isOptimal_of_total (asg := [0, 0, 1, 1, 1]) (T := 6) ⟨rfl, by decide⟩ (by decide) (by decide)

example : 3 * (2 : Nat) * (maxL (greedy id 2 [3, 3, 2, 2, 2]).sums : Int) ≤ (4 * (2 : Nat) - 1) * 6 :=
  greedy_four_thirds_small (v := id) (x := 2) (by decide) opt_33222
    ⟨[3, 3, 2, 2], [], by decide, by decide, by decide, by decide⟩ (by decide)
example : maxL (greedy id 2 [3, 3, 2, 2, 2]).sums = 7 := by decide

/-! ## 5. (iii) Large items: two per bin, and LPT is optimal -/

/-- the weight of a bin in the counting argument: its cardinality plus the number of its members
    satisfying `p` -/
def mu (p : Nat → Bool) (l : List Nat) : Nat := l.length + l.countP p

theorem mu_append (p : Nat → Bool) (l₁ l₂ : List Nat) : mu p (l₁ ++ l₂) = mu p l₁ + mu p l₂ := by
  simp only [mu, List.length_append, List.countP_append]; omega

theorem mu_perm (p : Nat → Bool) {l₁ l₂ : List Nat} (h : l₁.Perm l₂) : mu p l₁ = mu p l₂ := by
  simp only [mu, h.length_eq, h.countP_eq]

theorem mu_flatten_le (p : Nat → Bool) (L : List (List Nat)) (h : ∀ l ∈ L, mu p l ≤ 2) :
    mu p L.flatten ≤ 2 * L.length := by
  induction L with
  | nil => simp [mu]
  | cons l L ih =>
    have h1 := h l List.mem_cons_self
    have h2 := ih (fun l' hl' => h l' (List.mem_cons_of_mem _ hl'))
    simp only [List.flatten_cons, mu_append, List.length_cons]
    omega

theorem le_mu_flatten (p : Nat → Bool) (L : List (List Nat)) (h : ∀ l ∈ L, 2 ≤ mu p l) :
    2 * L.length ≤ mu p L.flatten := by
  induction L with
  | nil => simp [mu]
  | cons l L ih =>
    have h1 := h l List.mem_cons_self
    have h2 := ih (fun l' hl' => h l' (List.mem_cons_of_mem _ hl'))
    simp only [List.flatten_cons, mu_append, List.length_cons]
    omega

/-- **Two per bin.**  If every item exceeds a third of the capacity, a bin holds at most two items. -/
theorem two_per_bin {T m : Nat} {l : List Nat} (hm : ∀ y ∈ l, m ≤ y) (hT : T < 3 * m) (hl : sumL l ≤ T) :
    l.length ≤ 2 := by
  match l, hm, hl with
  | [], _, _ => simp
  | [_], _, _ => simp
  | [_, _], _, _ => simp
  | y :: z :: w :: t, hm, hl =>
    have h1 := hm y (by simp)
    have h2 := hm z (by simp)
    have h3 := hm w (by simp)
    simp only [sumL] at hl
    omega

/-- ... and an item `y` that cannot share a bin with the smallest item (`y + m > T`) is alone in its bin:
    the weight `cardinality + number of such items` of a feasible bin is at most two. -/
theorem two_per_bin_mu {T m : Nat} {l : List Nat} (hm : ∀ y ∈ l, m ≤ y) (hT : T < 3 * m) (hl : sumL l ≤ T) :
    mu (fun y => decide (T < y + m)) l ≤ 2 := by
  match l, hm, hl with
  | [], _, _ => simp [mu]
  | [y], _, _ =>
    have := List.countP_le_length (p := fun y => decide (T < y + m)) (l := [y])
    simp only [mu, List.length_cons, List.length_nil] at this ⊢
    omega
  | [y, z], hm, hl =>
    have h1 := hm y (by simp)
    have h2 := hm z (by simp)
    simp only [sumL] at hl
    have e1 : ¬ T < y + m := by omega
    have e2 : ¬ T < z + m := by omega
    simp [mu, e1, e2]
  | y :: z :: w :: t, hm, hl =>
    have h1 := hm y (by simp)
    have h2 := hm z (by simp)
    have h3 := hm w (by simp)
    simp only [sumL] at hl
    omega

/-- **The counting form of "two per bin".**  If all items are `≥ m > T / 3` and fit into `k` bins of capacity
    `T`, then `(number of items) + (number of items y with y + m > T) ≤ 2k`. -/
theorem two_per_bin_count {T k m : Nat} {vals : List Nat} (h : Packable T k vals) (hm : ∀ y ∈ vals, m ≤ y)
    (hT : T < 3 * m) : vals.length + vals.countP (fun y => decide (T < y + m)) ≤ 2 * k := by
  obtain ⟨Q, hk, hp, hQ⟩ := packable_partition h
  have := mu_flatten_le (fun y => decide (T < y + m)) Q (fun l hl =>
    two_per_bin_mu (fun y hy => hm y (hp.mem_iff.1 (List.mem_flatten.2 ⟨l, hl, hy⟩))) hT (hQ l hl))
  rw [mu_perm _ hp, hk] at this
  exact this

/-- in particular there are at most `2k` items -/
theorem length_le_of_large {T k m : Nat} {vals : List Nat} (h : Packable T k vals) (hm : ∀ y ∈ vals, m ≤ y)
    (hT : T < 3 * m) : vals.length ≤ 2 * k := by
  have := two_per_bin_count h hm hT; omega

/-- **The smallest item always fits.**  Let the items `vals ++ [m]` be feasible for capacity `T`, all of them
    `≥ m > T / 3`.  Then in *every* distribution `LL` of `vals` over `k` bins some bin has room for `m`.
    (Otherwise each bin of `LL` holds two items or an item that cannot be paired, which makes
    `|vals| + #unpairable ≥ 2k`; feasibility of `vals ++ [m]` gives `|vals| + 1 + #unpairable ≤ 2k`.) -/
theorem large_fits {T k m : Nat} {vals : List Nat} (LL : List (List Nat)) (hlen : LL.length = k)
    (hperm : LL.flatten.Perm vals) (hfeas : Packable T k (vals ++ [m])) (hm : ∀ y ∈ vals, m ≤ y)
    (hT : T < 3 * m) : ∃ l ∈ LL, sumL l + m ≤ T := by
  by_cases hex : ∃ l ∈ LL, sumL l + m ≤ T
  · exact hex
  · exfalso
    have hno : ∀ l ∈ LL, T < sumL l + m := fun l hl => Nat.lt_of_not_le fun hc => hex ⟨l, hl, hc⟩
    have hmT : m ≤ T := packable_item_le hfeas (by simp)
    have h1 := le_mu_flatten (fun y => decide (T < y + m)) LL (fun l hl => by
      have := hno l hl
      match l, this with
      | [], this => simp only [sumL] at this; omega
      | [y], this =>
        simp only [sumL] at this
        have e : T < y + m := by omega
        simp [mu, e]
      | y :: z :: t, _ => simp only [mu, List.length_cons]; omega)
    rw [mu_perm _ hperm, hlen] at h1
    have h2 := two_per_bin_count hfeas (m := m) (fun y hy => by
      rcases List.mem_append.1 hy with hy | hy
      · exact hm y hy
      · simp at hy; omega) hT
    simp only [mu, List.length_append, List.countP_append, List.length_cons, List.length_nil] at h1 h2
    omega

/-- the same for the LPT loop: if the items `P ++ [x]` are feasible for `T` and all `≥ v x > T / 3`, the least
    loaded bin after `P` has room for `x` -/
theorem run_snoc_fits {v : α → Nat} {k T : Nat} (hk : 0 < k) {P : List α} {x : α}
    (hs : ∀ a ∈ P, v x ≤ v a) (hfeas : Packable T k ((P ++ [x]).map v)) (hT : T < 3 * v x) :
    minL (run v k P).sums + v x ≤ T := by
  obtain ⟨h1, h2, h3⟩ := run_valid v hk P
  obtain ⟨l', hl', hfit⟩ := large_fits (T := T) (k := k) (m := v x) (vals := P.map v)
    ((run v k P).lists.map (List.map v)) (by simpa using h2)
    (by rw [← List.map_flatten]; exact h1.map v) (by simpa using hfeas)
    (fun y hy => by obtain ⟨a, ha, rfl⟩ := List.mem_map.1 hy; exact hs a ha) hT
  obtain ⟨l, hl, rfl⟩ := List.mem_map.1 hl'
  have hmem : binSum v l ∈ (run v k P).sums := by
    rw [h3]; exact List.mem_map.2 ⟨l, hl, rfl⟩
  have := Part.minL_le hmem
  have e : binSum v l = sumL (l.map v) := rfl
  omega

/-- LPT on an ordered list of large items stays within every feasible capacity -/
theorem run_le_of_large {v : α → Nat} {k T : Nat} (hk : 0 < k) :
    ∀ xs : List α, xs.Pairwise (fun a c => v c ≤ v a) → Packable T k (xs.map v) →
      (∀ x ∈ xs, T < 3 * v x) → maxL (run v k xs).sums ≤ T := by
  intro xs
  induction xs using Oracle.rev_induction with
  | nil => intro _ _ _; simp [run, Bins.new, maxL_replicate_zero]
  | snoc P x ih =>
    intro hs hf hb
    obtain ⟨hs1, _, hs2⟩ := List.pairwise_append.1 hs
    have hfP : Packable T k (P.map v) := by
      rw [List.map_append] at hf; exact packable_prefix _ hf
    have h1 := ih hs1 hfP (fun y hy => hb y (by simp [hy]))
    have h2 := run_snoc_fits hk (fun a ha => hs2 a ha x (by simp)) hf (hb x (by simp))
    rw [run_snoc_max v hk P x]
    omega

/-- **(iii) LPT is optimal when every item exceeds a third of the optimum.** -/
theorem greedy_opt_of_large {v : α → Nat} {k : Nat} {items : List α} (hk : 0 < k) {opt : Int}
    (hopt : IsOptimalValue .minLargest k (items.map v) opt) (hbig : ∀ x ∈ items, opt < 3 * (v x : Int)) :
    (maxL (greedy v k items).sums : Int) = opt := by
  obtain ⟨T, hT, hp⟩ := packable_of_opt hopt
  have hperm := Part.sortDesc_perm v items
  have h1 := run_le_of_large (v := v) (T := T) hk (sortDesc v items) (Part.sortDesc_sorted v items)
    (packable_perm (hperm.map v).symm hp)
    (fun x hx => by have := hbig x (hperm.mem_iff.1 hx); omega)
  have h2 := Oracle.optimal_le_partition hopt (Part.greedy_isPartition (v := v) (items := items) hk)
  simp only [Objective.value, Bool.false_eq_true, if_false] at h2
  rw [greedy_eq_run]
  rw [greedy_eq_run] at h2
  omega

/-- non-vacuity: `[5, 4, 3, 3]` on two bins: `OPT = 8`, every item exceeds `8 / 3`, LPT finds `8` -/
theorem opt_5433 : IsOptimalValue .minLargest 2 ([5, 4, 3, 3].map id) 8 :=
  isOptimal_of_total (asg := [0, 1, 0, 1]) (T := 8) ⟨rfl, by decide⟩ (by decide) (by decide)

example : (maxL (greedy id 2 [5, 4, 3, 3]).sums : Int) = 8 :=
  greedy_opt_of_large (v := id) (by decide) opt_5433 (by decide)

/-! ## 6. (iv) Graham's theorem -/

/-- the theorem for the LPT loop on an ordered list, for every feasible capacity `T`, without subtraction -/
theorem run_four_thirds {v : α → Nat} {k T : Nat} (hk : 0 < k) :
    ∀ xs : List α, xs.Pairwise (fun a c => v c ≤ v a) → Packable T k (xs.map v) →
      3 * k * maxL (run v k xs).sums + T ≤ 4 * k * T := by
  intro xs
  induction xs using Oracle.rev_induction with
  | nil =>
    intro _ _
    have h0 : maxL (run v k ([] : List α)).sums = 0 := by simp [run, Bins.new, maxL_replicate_zero]
    rw [h0]
    exact arith_large hk (Nat.zero_le _)
  | snoc P x ih =>
    intro hs hf
    obtain ⟨hs1, _, hs2⟩ := List.pairwise_append.1 hs
    have hfP : Packable T k (P.map v) := by
      rw [List.map_append] at hf; exact packable_prefix _ hf
    have hih := ih hs1 hfP
    rcases run_snoc_critical v hk P x with h | ⟨h1, h2⟩
    · rw [h]; exact hih
    · by_cases hx : 3 * v x ≤ T
      · -- the critical item is small: the averaging argument
        exact arith_small hk h2 (packable_sum hf) hx
      · -- the critical (= smallest) item is large: it fits
        have := run_snoc_fits hk (fun a ha => hs2 a ha x (by simp)) hf (by omega)
        exact arith_large hk (by omega)

/-- **(iv) Graham 1969.**  For `k ≥ 1` bins, the largest sum of LPT is at most `4/3 − 1/(3k)` times the optimal
    largest sum. -/
theorem greedy_four_thirds {v : α → Nat} {k : Nat} {items : List α} (hk : 0 < k) {opt : Int}
    (hopt : IsOptimalValue .minLargest k (items.map v) opt) :
    3 * k * (maxL (greedy v k items).sums : Int) ≤ (4 * k - 1) * opt := by
  obtain ⟨T, hT, hp⟩ := packable_of_opt hopt
  apply cast_bound hT
  rw [greedy_eq_run]
  exact run_four_thirds hk (sortDesc v items) (Part.sortDesc_sorted v items)
    (packable_perm ((Part.sortDesc_perm v items).map v).symm hp)

/-- non-vacuity and tightness: Graham's instance for `k = 2`: `[3, 3, 2, 2, 2]`, `OPT = 6`, LPT `= 7`,
    `3 · 2 · 7 = 42 = 7 · 6` -/
example : 3 * (2 : Nat) * (maxL (greedy id 2 [3, 3, 2, 2, 2]).sums : Int) ≤ (4 * (2 : Nat) - 1) * 6 :=
  greedy_four_thirds (v := id) (by decide) opt_33222
example : 3 * (2 : Nat) * (maxL (greedy id 2 [3, 3, 2, 2, 2]).sums : Int) = (4 * (2 : Nat) - 1) * 6 := by decide

/-! ## 7. Max-min: how far the smallest sum of LPT can be from the optimal smallest sum

Second goal (Deuermeyer–Friesen–Langston, Csirik–Kellerer–Woeginger): `(4k − 2) · min ≥ (3k − 1) · OPT`.
Proved here:
* `greedy_maxmin_spread`:  `k · OPT ≤ k · min + (k − 1) · y`, where `y` is the `(k+1)`-th largest value
  (the largest item that LPT can put on a non-empty bin);
* `greedy_maxmin_partial_small`: the exact bound `(4k − 2) · min ≥ (3k − 1) · OPT` when `(4k − 2) · y ≤ k · OPT`;
* `greedy_maxmin_partial_half`: unconditionally `(2k − 1) · min ≥ k · OPT`.
The case `(4k − 2) · y > k · OPT` of the exact bound (all of the `k + 1` largest items above `OPT / 4`) is open.
-/

/-- a feasible assignment, presented as a list of `k` bins together with its sums -/
theorem assignment_partition {k : Nat} {vals asg : List Nat} (hasg : IsAssignment k vals.length asg) :
    ∃ Q : List (List Nat), Q.length = k ∧ Q.flatten.Perm vals ∧ Q.map sumL = sumsOf k vals asg := by
  obtain ⟨h1, h2, h3, h4⟩ := Oracle.replay_spec id vals asg (Bins.new k) hasg.1
    (fun a ha => by simpa using hasg.2 a ha) (Part.new_consistent id k)
  refine ⟨_, by simpa using h1, by simpa [Part.new_flat] using h2, ?_⟩
  have e : ∀ L : List (List Nat), L.map sumL = L.map (binSum id) :=
    fun L => List.map_congr_left (fun l _ => (binSum_id l).symm)
  rw [e, ← h3, h4]
  simp [Oracle.sumsOf_eq, Bins.new]

/-- weighted total: the members satisfying `p` count `c` each, the others count their value -/
def gw (p : Nat → Bool) (c : Nat) (l : List Nat) : Nat := sumL (l.filter (fun a => !p a)) + c * l.countP p

theorem gw_append (p : Nat → Bool) (c : Nat) (l₁ l₂ : List Nat) :
    gw p c (l₁ ++ l₂) = gw p c l₁ + gw p c l₂ := by
  simp only [gw, List.filter_append, Part.sumL_append, List.countP_append, Nat.mul_add]; omega

theorem gw_perm (p : Nat → Bool) (c : Nat) {l₁ l₂ : List Nat} (h : l₁.Perm l₂) : gw p c l₁ = gw p c l₂ := by
  simp only [gw, Part.sumL_perm (h.filter _), h.countP_eq]

theorem gw_flatten (p : Nat → Bool) (c : Nat) (L : List (List Nat)) :
    gw p c L.flatten = sumL (L.map (gw p c)) := by
  induction L with
  | nil => simp [gw, sumL]
  | cons l L ih => simp only [List.flatten_cons, gw_append, List.map_cons, sumL, ih]

theorem gw_of_none (p : Nat → Bool) (c : Nat) (l : List Nat) (h : ∀ a ∈ l, p a = false) :
    gw p c l = sumL l := by
  have h1 : l.filter (fun a => !p a) = l := List.filter_eq_self.2 (fun a ha => by simp [h a ha])
  have h2 : l.countP p = 0 := List.countP_eq_zero.2 (fun a ha => by simp [h a ha])
  simp [gw, h1, h2]

theorem countP_flatten_sumL (p : Nat → Bool) (L : List (List Nat)) :
    L.flatten.countP p = sumL (L.map (List.countP p)) := by
  induction L with
  | nil => rfl
  | cons l L ih => simp only [List.flatten_cons, List.countP_append, List.map_cons, sumL, ih]

/-- a covered bin weighs at least `W`, whatever the items that are counted `W` -/
theorem cover_gw {W : Nat} (p : Nat → Bool) (l : List Nat) (h : W ≤ sumL l) : W ≤ gw p W l := by
  by_cases h0 : l.countP p = 0
  · rw [gw_of_none p W l (fun a ha => by simpa using List.countP_eq_zero.1 h0 a ha)]; exact h
  · have : W ≤ W * l.countP p := Nat.le_mul_of_pos_right _ (Nat.pos_of_ne_zero h0)
    simp only [gw]; omega

/-- **Covering side.**  If `vals` can be split into `k` bins of sum `≥ W`, then for every class `p` of items:
    `k · W ≤ (total of the items outside p) + W · (number of items in p)`. -/
theorem cover_count {W k : Nat} {vals : List Nat} (p : Nat → Bool) (Q : List (List Nat)) (hk : Q.length = k)
    (hp : Q.flatten.Perm vals) (hQ : ∀ l ∈ Q, W ≤ sumL l) : k * W ≤ gw p W vals := by
  rw [← gw_perm p W hp, gw_flatten, ← hk]
  have := Part.length_mul_le_sumL (Q.map (gw p W)) W 0 (fun a ha => by
    obtain ⟨l, hl, rfl⟩ := List.mem_map.1 ha
    have := cover_gw p l (hQ l hl); omega)
  simpa using this

theorem arith_spread {k a N W L y : Nat} (h1 : k * W ≤ N + W * a) (h2 : N + (L + y) * a + y ≤ k * L + k * y)
    (h3 : a + 1 ≤ k) : k * W + y ≤ k * L + k * y := by
  obtain ⟨j, rfl⟩ : ∃ j, k = a + 1 + j := ⟨k - (a + 1), by omega⟩
  rcases Nat.le_total W (L + y) with h | h
  · have := Nat.mul_le_mul_left a h
    nlinarith
  · have := Nat.mul_le_mul_left (j + 1) h
    nlinarith

/-- **LPT side, combinatorial core.**  Let `LL` be `k ≥ 1` bins with least sum `L`, such that every bin with at
    least two items has sum `≤ L + y`, and let the same items be coverable to `W` in `k` bins.  Then
    `k · W ≤ k · L + (k − 1) · y`. -/
theorem spread_core {W k L y : Nat} {vals : List Nat} (LL Q : List (List Nat)) (hk : LL.length = k)
    (hp : LL.flatten.Perm vals) (hL : L = minL (LL.map sumL)) (hk0 : 0 < k)
    (hinv : ∀ l ∈ LL, l.length ≤ 1 ∨ sumL l ≤ L + y)
    (hQk : Q.length = k) (hQp : Q.flatten.Perm vals) (hQ : ∀ l ∈ Q, W ≤ sumL l) :
    k * W + y ≤ k * L + k * y := by
  let big : Nat → Bool := fun a => decide (L + y < a)
  have hne : LL.map sumL ≠ [] := by
    intro h0
    rw [List.map_eq_nil_iff] at h0
    rw [h0] at hk
    simp at hk; omega
  -- the least loaded bin
  obtain ⟨l₀, hl₀, e₀⟩ := List.mem_map.1 (Part.minL_mem hne)
  rw [← hL] at e₀
  have hnone₀ : ∀ a ∈ l₀, big a = false := fun a ha => by
    have := le_sumL_of_mem ha
    simp only [big, decide_eq_false_iff_not]; omega
  -- every bin
  have hbin : ∀ l ∈ LL, gw big (L + y) l ≤ L + y ∧ l.countP big ≤ 1 := by
    intro l hl
    match l, hinv l hl with
    | [], _ => simp [gw, sumL]
    | [a], _ =>
      by_cases ha : L + y < a
      · simp [gw, big, ha, sumL]
      · simp [gw, big, ha, sumL]; omega
    | a :: c :: t, h =>
      have h' : sumL (a :: c :: t) ≤ L + y := by
        rcases h with h | h
        · simp at h
        · exact h
      have hn : ∀ z ∈ a :: c :: t, big z = false := fun z hz => by
        have := le_sumL_of_mem hz
        simp only [big, decide_eq_false_iff_not]; omega
      rw [gw_of_none big _ _ hn]
      exact ⟨h', by rw [List.countP_eq_zero.2 (fun z hz => by simp [hn z hz])]; omega⟩
  -- sum over the bins
  have s1 := Part.sumL_le_length_mul' (LL.map (gw big (L + y))) L y (fun a ha => by
    obtain ⟨l, hl, rfl⟩ := List.mem_map.1 ha
    exact (hbin l hl).1) (List.mem_map.2 ⟨l₀, hl₀, by rw [gw_of_none big _ _ hnone₀, e₀]⟩)
  have s2 := Part.sumL_le_length_mul' (LL.map (List.countP big)) 0 1 (fun a ha => by
    obtain ⟨l, hl, rfl⟩ := List.mem_map.1 ha
    have := (hbin l hl).2; omega) (List.mem_map.2 ⟨l₀, hl₀,
      List.countP_eq_zero.2 (fun z hz => by simp [hnone₀ z hz])⟩)
  rw [← gw_flatten, gw_perm _ _ hp, List.length_map, hk] at s1
  rw [← countP_flatten_sumL, hp.countP_eq, List.length_map, hk] at s2
  have c1 := cover_count big Q hQk hQp hQ
  simp only [gw] at s1 c1
  exact arith_spread (a := vals.countP big) (N := sumL (vals.filter (fun a => !big a)))
    (by omega) (by have := Nat.mul_comm (L + y) (vals.countP big); omega) (by omega)

/-! ### the LPT invariant -/

/-- every bin with at least two items is within `y` of the least loaded bin -/
def SpreadInv (v : α → Nat) (b : Bins α) (y : Nat) : Prop :=
  ∀ l ∈ b.lists, l.length ≤ 1 ∨ binSum v l ≤ minL b.sums + y

theorem minL_le_minL_modify_add (s : List Nat) (i a : Nat) (hne : s ≠ []) :
    minL s ≤ minL (s.modify i (· + a)) := by
  have hne' : s.modify i (· + a) ≠ [] := by
    intro h0; have := congrArg List.length h0; simp at this; exact hne this
  rcases Part.mem_modify (Part.minL_mem hne') with h | ⟨hi, h⟩
  · exact Part.minL_le h
  · have := Part.minL_le (List.getElem_mem hi); omega

/-- pigeonhole: fewer items than bins leaves a bin empty -/
theorem nil_mem_of_flatten_lt {β : Type} (Ls : List (List β)) (h : Ls.flatten.length < Ls.length) :
    [] ∈ Ls := by
  induction Ls with
  | nil => simp at h
  | cons l Ls ih =>
    cases l with
    | nil => simp
    | cons a t =>
      simp only [List.flatten_cons, List.length_append, List.length_cons] at h
      exact List.mem_cons_of_mem _ (ih (by omega))

theorem le_binSum_of_mem (v : α → Nat) {l : List α} {a : α} (h : a ∈ l) : v a ≤ binSum v l :=
  le_sumL_of_mem (List.mem_map_of_mem h)

theorem spreadInv_step {v : α → Nat} {k : Nat} (hk : 0 < k) {b : Bins α} {done : List α} {y : Nat}
    (hv : Part.Valid v k b done) (hinv : SpreadInv v b y) (x : α)
    (hx : v x ≤ y ∨ (done.length < k ∧ ∀ a ∈ done, v x ≤ v a)) : SpreadInv v (greedyStep v b x) y := by
  obtain ⟨hperm, hlists, hcons⟩ := hv
  have hlen : b.sums.length = k := by rw [Part.consistent_length v hcons, hlists]
  have hne : b.sums ≠ [] := by intro h0; rw [h0] at hlen; simp at hlen; omega
  have hlt := Part.argmin_lt hne
  have hmin : minL b.sums ≤ minL (greedyStep v b x).sums := minL_le_minL_modify_add _ _ _ hne
  intro l' hl'
  rcases Part.mem_modify hl' with h | ⟨hi, rfl⟩
  · rcases hinv l' h with h1 | h1
    · exact Or.inl h1
    · exact Or.inr (by omega)
  · have hsum : b.sums[argmin b.sums] = binSum v b.lists[argmin b.sums] := by
      have hc : b.sums = b.lists.map (binSum v) := hcons
      simp [hc]
    rw [Part.getElem_argmin hlt] at hsum
    rw [Oracle.binSum_concat]
    by_cases hxy : v x ≤ y
    · exact Or.inr (by omega)
    · left
      obtain ⟨hd, hall⟩ : done.length < k ∧ ∀ a ∈ done, v x ≤ v a := by
        rcases hx with hx | hx
        · exact absurd hx hxy
        · exact hx
      have hnil : ([] : List α) ∈ b.lists :=
        nil_mem_of_flatten_lt b.lists (by rw [hperm.length_eq, hlists]; exact hd)
      have h0 : (0 : Nat) ∈ b.sums := by
        have hc : b.sums = b.lists.map (binSum v) := hcons
        rw [hc]; exact List.mem_map.2 ⟨[], hnil, rfl⟩
      have hm0 : minL b.sums = 0 := by have := Part.minL_le h0; omega
      have hempty : b.lists[argmin b.sums] = [] := by
        cases hl : b.lists[argmin b.sums] with
        | nil => rfl
        | cons a t =>
          exfalso
          have ha : a ∈ b.lists[argmin b.sums] := by rw [hl]; simp
          have h1 := le_binSum_of_mem v ha
          have h2 := hall a (hperm.mem_iff.1 (List.mem_flatten.2 ⟨_, List.getElem_mem hi, ha⟩))
          omega
      simp [hempty]

theorem run_spreadInv {v : α → Nat} {k : Nat} (hk : 0 < k) {S : List α}
    (hS : S.Pairwise (fun a c => v c ≤ v a)) {y : Nat}
    (hy : ∀ j (h : j < S.length), k ≤ j → v S[j] ≤ y) :
    ∀ P rest, S = P ++ rest → SpreadInv v (run v k P) y := by
  intro P
  induction P using Oracle.rev_induction with
  | nil =>
    intro rest _ l hl
    simp only [run, List.foldl_nil, Bins.new, List.mem_replicate] at hl
    left; rw [hl.2]; simp
  | snoc P x ih =>
    intro rest hrest
    have hrest' : S = P ++ (x :: rest) := by rw [hrest]; simp
    rw [run_snoc]
    apply spreadInv_step hk (run_valid v hk P) (ih _ hrest')
    by_cases hj : k ≤ P.length
    · left
      have := hy P.length (by rw [hrest']; simp) hj
      simpa [hrest'] using this
    · right
      refine ⟨by omega, ?_⟩
      rw [hrest'] at hS
      intro a ha
      exact (List.pairwise_append.1 hS).2.2 a ha x (by simp)

/-- the `(k+1)`-th largest value (`0` if there are at most `k` items): no larger item is ever put on a
    non-empty bin by LPT -/
def nextValue (v : α → Nat) (k : Nat) (items : List α) : Nat := ((sortDesc v items).map v).getD k 0

theorem nextValue_spec (v : α → Nat) (k : Nat) (items : List α) :
    ∀ j (h : j < (sortDesc v items).length), k ≤ j → v (sortDesc v items)[j] ≤ nextValue v k items := by
  intro j h hkj
  have hk : k < (sortDesc v items).length := by omega
  have e : nextValue v k items = v (sortDesc v items)[k] := by
    simp [nextValue, List.getD_eq_getElem?_getD, hk]
  rw [e]
  rcases Nat.lt_or_ge k j with hlt | hge
  · exact (List.pairwise_iff_getElem.1 (Part.sortDesc_sorted v items)) k j hk h hlt
  · have : j = k := by omega
    subst this; exact Nat.le_refl _

/-- the optimal smallest sum, as a covering -/
theorem cover_of_opt {k : Nat} {vals : List Nat} {opt : Int} (_hk : 0 < k)
    (hopt : IsOptimalValue .maxSmallest k vals (-opt)) :
    ∃ W : Nat, (W : Int) = opt ∧ ∃ Q : List (List Nat), Q.length = k ∧ Q.flatten.Perm vals ∧
      ∀ l ∈ Q, W ≤ sumL l := by
  obtain ⟨⟨asg, hasg, he⟩, _⟩ := hopt
  obtain ⟨Q, hQk, hQp, hQs⟩ := assignment_partition hasg
  refine ⟨minL (sumsOf k vals asg), ?_, Q, hQk, hQp, ?_⟩
  · simp only [Objective.value, Bool.false_eq_true, if_false] at he; omega
  · intro l hl
    rw [← hQs]
    exact Part.minL_le (List.mem_map_of_mem hl)

/-- **Spread bound for max-min.**  `k · OPT ≤ k · min + (k − 1) · y` with `y` the `(k+1)`-th largest value
    (written without subtraction). -/
theorem greedy_maxmin_spread {v : α → Nat} {k : Nat} {items : List α} (hk : 0 < k) {opt : Int}
    (hopt : IsOptimalValue .maxSmallest k (items.map v) (-opt)) :
    k * opt + nextValue v k items ≤
      k * (minL (greedy v k items).sums : Int) + k * (nextValue v k items : Int) := by
  obtain ⟨W, hW, Q, hQk, hQp, hQ⟩ := cover_of_opt hk hopt
  have hinv := run_spreadInv hk (Part.sortDesc_sorted v items) (nextValue_spec v k items)
    (sortDesc v items) [] (by simp)
  obtain ⟨h1, h2, h3⟩ := run_valid v hk (sortDesc v items)
  have hc : (run v k (sortDesc v items)).sums = (run v k (sortDesc v items)).lists.map (binSum v) := h3
  have key := spread_core (W := W) (k := k) (L := minL (greedy v k items).sums) (y := nextValue v k items)
    (vals := (sortDesc v items).map v)
    ((run v k (sortDesc v items)).lists.map (List.map v)) Q (by simpa using h2)
    (by rw [← List.map_flatten]; exact h1.map v)
    (by rw [greedy_eq_run, hc, List.map_map]; rfl) hk
    (by
      intro l' hl'
      obtain ⟨l, hl, rfl⟩ := List.mem_map.1 hl'
      rcases hinv l hl with h | h
      · left; simpa using h
      · right; rw [greedy_eq_run]; exact h)
    hQk (hQp.trans ((Part.sortDesc_perm v items).map v).symm) hQ
  rw [← hW]
  exact_mod_cast key

/-- non-vacuity: `[3, 3, 2, 2, 2]` on two bins: optimal smallest sum `6`, LPT's smallest sum `5`, third largest
    value `2`: `2 · 6 + 2 ≤ 2 · 5 + 2 · 2` (tight) -/
theorem optmin_33222 : IsOptimalValue .maxSmallest 2 ([3, 3, 2, 2, 2].map id) (-6) := by
  refine ⟨⟨[0, 0, 1, 1, 1], ⟨rfl, by decide⟩, by decide⟩, ?_⟩
  intro asg hasg
  obtain ⟨Q, hQk, hQp, hQs⟩ := assignment_partition hasg
  have h1 := length_mul_minL_le (sumsOf 2 ([3, 3, 2, 2, 2].map id) asg)
  rw [← hQs, ← sumL_flatten, Part.sumL_perm hQp, List.length_map, hQk] at h1
  simp only [Objective.value, Bool.false_eq_true, if_false]
  have : sumL ([3, 3, 2, 2, 2].map id) = 12 := by decide
  rw [← hQs]
  omega

example : (2 : Nat) * (6 : Int) + nextValue id 2 [3, 3, 2, 2, 2] ≤
    (2 : Nat) * (minL (greedy id 2 [3, 3, 2, 2, 2]).sums : Int) + (2 : Nat) * (nextValue id 2 [3, 3, 2, 2, 2] : Int) :=
  greedy_maxmin_spread (v := id) (by decide) optmin_33222
example : nextValue id 2 [3, 3, 2, 2, 2] = 2 ∧ minL (greedy id 2 [3, 3, 2, 2, 2]).sums = 5 := by decide

/-- **Max-min, exact bound, partial**: `(4k − 2) · min ≥ (3k − 1) · OPT` provided the `(k+1)`-th largest value
    `y` satisfies `(4k − 2) · y ≤ k · OPT`.
    Missing for the full Deuermeyer–Friesen–Langston / Csirik–Kellerer–Woeginger theorem: the case
    `(4k − 2) · y > k · OPT`, in which the `k + 1` largest items all exceed `OPT / 4`. -/
theorem greedy_maxmin_partial_small {v : α → Nat} {k : Nat} {items : List α} (hk : 0 < k) {opt : Int}
    (hopt : IsOptimalValue .maxSmallest k (items.map v) (-opt))
    (hy : (4 * k - 2) * (nextValue v k items : Int) ≤ k * opt) :
    (4 * k - 2) * (minL (greedy v k items).sums : Int) ≥ (3 * k - 1) * opt := by
  have key := greedy_maxmin_spread hk hopt
  obtain ⟨k', rfl⟩ : ∃ k', k = k' + 1 := ⟨k - 1, by omega⟩
  push_cast at key hy ⊢
  have hk' : (0 : Int) ≤ k' := Int.natCast_nonneg k'
  have hy0 : (0 : Int) ≤ (nextValue v (k' + 1) items : Int) := Int.natCast_nonneg _
  have hkpos : (0 : Int) < (k' : Int) + 1 := by omega
  have h1 : ((k' : Int) + 1) * ((3 * ((k' : Int) + 1) - 1) * opt) ≤
      ((k' : Int) + 1) * ((4 * ((k' : Int) + 1) - 2) * (minL (greedy v (k' + 1) items).sums : Int)) := by
    nlinarith [mul_le_mul_of_nonneg_left hy hk', mul_le_mul_of_nonneg_left key (show (0 : Int) ≤ 4 * k' + 2 by omega)]
  exact le_of_mul_le_mul_left h1 hkpos

/-! ### the `(k+1)`-th largest value is at most LPT's smallest sum -/

theorem run_sums_ne_nil (v : α → Nat) {k : Nat} (hk : 0 < k) (P : List α) : (run v k P).sums ≠ [] := by
  intro h0
  have := run_sums_length v hk P
  rw [h0] at this; simp at this; omega

/-- the smallest sum never decreases during the run -/
theorem run_min_mono (v : α → Nat) {k : Nat} (hk : 0 < k) (P R : List α) :
    minL (run v k P).sums ≤ minL (run v k (P ++ R)).sums := by
  induction R using Oracle.rev_induction with
  | nil => simp
  | snoc R x ih =>
    rw [← List.append_assoc, run_snoc]
    exact Nat.le_trans ih (minL_le_minL_modify_add _ _ _ (run_sums_ne_nil v hk _))

theorem flatten_length_le {β : Type} (Ls : List (List β)) (h : ∀ l ∈ Ls, l.length ≤ 1) :
    Ls.flatten.length ≤ Ls.length := by
  induction Ls with
  | nil => simp
  | cons l Ls ih =>
    have h1 := h l List.mem_cons_self
    have h2 := ih (fun l' hl' => h l' (List.mem_cons_of_mem _ hl'))
    simp only [List.flatten_cons, List.length_append, List.length_cons]
    omega

/-- while all items are `≥ y`: either every bin already reaches `y`, or no bin holds two items -/
theorem run_first {v : α → Nat} {k : Nat} (hk : 0 < k) (y : Nat) :
    ∀ P : List α, (∀ a ∈ P, y ≤ v a) →
      y ≤ minL (run v k P).sums ∨ ∀ l ∈ (run v k P).lists, l.length ≤ 1 := by
  intro P
  induction P using Oracle.rev_induction with
  | nil =>
    intro _
    right
    intro l hl
    simp only [run, List.foldl_nil, Bins.new, List.mem_replicate] at hl
    rw [hl.2]; simp
  | snoc P x ih =>
    intro hP
    have hP' : ∀ a ∈ P, y ≤ v a := fun a ha => hP a (by simp [ha])
    rcases ih hP' with h | h
    · left
      exact Nat.le_trans h (run_min_mono v hk P [x])
    · by_cases hm : y ≤ minL (run v k P).sums
      · left
        exact Nat.le_trans hm (run_min_mono v hk P [x])
      · right
        obtain ⟨hperm, hlists, hcons⟩ := run_valid v hk P
        have hlt := Part.argmin_lt (run_sums_ne_nil v hk P)
        have hc : (run v k P).sums = (run v k P).lists.map (binSum v) := hcons
        rw [run_snoc]
        intro l' hl'
        rcases Part.mem_modify hl' with h' | ⟨hi, rfl⟩
        · exact h l' h'
        · have hsum : (run v k P).sums[argmin (run v k P).sums] =
              binSum v (run v k P).lists[argmin (run v k P).sums] := by simp [hc]
          rw [Part.getElem_argmin hlt] at hsum
          have hempty : (run v k P).lists[argmin (run v k P).sums] = [] := by
            cases hl : (run v k P).lists[argmin (run v k P).sums] with
            | nil => rfl
            | cons a t =>
              exfalso
              have ha : a ∈ (run v k P).lists[argmin (run v k P).sums] := by rw [hl]; simp
              have h1 := le_binSum_of_mem v ha
              have h2 := hP' a (hperm.mem_iff.1 (List.mem_flatten.2 ⟨_, List.getElem_mem hi, ha⟩))
              omega
          simp [hempty]

/-- LPT's smallest sum is at least the `(k+1)`-th largest value -/
theorem nextValue_le_min {v : α → Nat} {k : Nat} {items : List α} (hk : 0 < k) :
    nextValue v k items ≤ minL (greedy v k items).sums := by
  by_cases hn : k < (sortDesc v items).length
  · have e : nextValue v k items = v (sortDesc v items)[k] := by
      simp [nextValue, List.getD_eq_getElem?_getD, hn]
    have hsplit : sortDesc v items = (sortDesc v items).take (k + 1) ++ (sortDesc v items).drop (k + 1) :=
      (List.take_append_drop _ _).symm
    have hall : ∀ a ∈ (sortDesc v items).take (k + 1), nextValue v k items ≤ v a := by
      intro a ha
      obtain ⟨i, hi, rfl⟩ := List.mem_iff_getElem.1 ha
      rw [List.getElem_take, e]
      have hi' : i < k + 1 := by simp at hi; omega
      rcases Nat.lt_or_ge i k with hlt | hge
      · exact (List.pairwise_iff_getElem.1 (Part.sortDesc_sorted v items)) i k (by omega) hn hlt
      · have : i = k := by omega
        subst this; exact Nat.le_refl _
    rw [greedy_eq_run, hsplit]
    refine Nat.le_trans ?_ (run_min_mono v hk _ _)
    rcases run_first hk (nextValue v k items) _ hall with h | h
    · exact h
    · exfalso
      obtain ⟨hperm, hlists, _⟩ := run_valid v hk ((sortDesc v items).take (k + 1))
      have := flatten_length_le _ h
      rw [hperm.length_eq, hlists, List.length_take] at this
      omega
  · have e : nextValue v k items = 0 := by
      have hnone : (sortDesc v items)[k]? = none := List.getElem?_eq_none (by omega)
      simp [nextValue, List.getD_eq_getElem?_getD, hnone]
    omega

/-- **Max-min, unconditional partial bound**: `(2k − 1) · min ≥ k · OPT`, i.e. LPT's smallest sum is at least
    `k / (2k − 1) > 1/2` of the optimal smallest sum.  (The exact constant `(3k − 1) / (4k − 2)` is proved in
    `greedy_maxmin_partial_small` under an extra hypothesis.) -/
theorem greedy_maxmin_partial_half {v : α → Nat} {k : Nat} {items : List α} (hk : 0 < k) {opt : Int}
    (hopt : IsOptimalValue .maxSmallest k (items.map v) (-opt)) :
    (2 * k - 1) * (minL (greedy v k items).sums : Int) ≥ k * opt := by
  have key := greedy_maxmin_spread hk hopt
  have hy : (nextValue v k items : Int) ≤ (minL (greedy v k items).sums : Int) := by
    exact_mod_cast nextValue_le_min (v := v) (items := items) hk
  obtain ⟨k', rfl⟩ : ∃ k', k = k' + 1 := ⟨k - 1, by omega⟩
  push_cast at key ⊢
  have hk' : (0 : Int) ≤ k' := Int.natCast_nonneg k'
  nlinarith [mul_le_mul_of_nonneg_left hy hk']

/-- non-vacuity: `[3, 3, 2, 2, 2]`, `k = 2`: `OPT = 6`, LPT's smallest sum is `5`; `3 · 5 ≥ 2 · 6`, and the exact
    bound `6 · 5 ≥ 5 · 6` is tight (the hypothesis reads `6 · 2 ≤ 2 · 6`) -/
example : (2 * (2 : Nat) - 1) * (minL (greedy id 2 [3, 3, 2, 2, 2]).sums : Int) ≥ (2 : Nat) * 6 :=
  greedy_maxmin_partial_half (v := id) (by decide) optmin_33222
example : (4 * (2 : Nat) - 2) * (minL (greedy id 2 [3, 3, 2, 2, 2]).sums : Int) ≥ (3 * (2 : Nat) - 1) * 6 :=
  greedy_maxmin_partial_small (v := id) (by decide) optmin_33222 (by decide)

end Prtpy.LPT43

/-
Axiom audit (Lean 4.33.0; output observed with the commands appended to a copy of this file):

#print axioms Prtpy.LPT43.greedy_four_thirds
  -- 'Prtpy.LPT43.greedy_four_thirds' depends on axioms: [propext, Classical.choice, Quot.sound]
#print axioms Prtpy.LPT43.greedy_opt_of_large
  -- 'Prtpy.LPT43.greedy_opt_of_large' depends on axioms: [propext, Classical.choice, Quot.sound]
#print axioms Prtpy.LPT43.greedy_critical
  -- 'Prtpy.LPT43.greedy_critical' depends on axioms: [propext, Quot.sound]
#print axioms Prtpy.LPT43.exists_critical
  -- 'Prtpy.LPT43.exists_critical' depends on axioms: [propext, Classical.choice, Quot.sound]
#print axioms Prtpy.LPT43.greedy_four_thirds_small
  -- 'Prtpy.LPT43.greedy_four_thirds_small' depends on axioms: [propext, Classical.choice, Quot.sound]
#print axioms Prtpy.LPT43.large_fits
  -- 'Prtpy.LPT43.large_fits' depends on axioms: [propext, Classical.choice, Quot.sound]
#print axioms Prtpy.LPT43.two_per_bin_count
  -- 'Prtpy.LPT43.two_per_bin_count' depends on axioms: [propext, Classical.choice, Quot.sound]
#print axioms Prtpy.LPT43.opt_prefix_le
  -- 'Prtpy.LPT43.opt_prefix_le' depends on axioms: [propext, Classical.choice, Quot.sound]
#print axioms Prtpy.LPT43.run_four_thirds
  -- 'Prtpy.LPT43.run_four_thirds' depends on axioms: [propext, Classical.choice, Quot.sound]
#print axioms Prtpy.LPT43.spread_core
  -- 'Prtpy.LPT43.spread_core' depends on axioms: [propext, Classical.choice, Quot.sound]
#print axioms Prtpy.LPT43.greedy_maxmin_spread
  -- 'Prtpy.LPT43.greedy_maxmin_spread' depends on axioms: [propext, Classical.choice, Quot.sound]
#print axioms Prtpy.LPT43.greedy_maxmin_partial_small
  -- 'Prtpy.LPT43.greedy_maxmin_partial_small' depends on axioms: [propext, Classical.choice, Quot.sound]
#print axioms Prtpy.LPT43.greedy_maxmin_partial_half
  -- 'Prtpy.LPT43.greedy_maxmin_partial_half' depends on axioms: [propext, Classical.choice, Quot.sound]
-/
