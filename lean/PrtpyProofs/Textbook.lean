/-
  PrtpyProofs.Textbook — property C14: every simple heuristic computes what its documentation says.

  Section "SPECIFICATIONS" contains *textbook* formulations of the nine rules, written on plain lists
  (no bins-array, no indices into it, no `-1`, no fuel, no `(index, new_sum)` pairs).  They are meant to be
  compared with the cited sources in a minute:

  * `rrSpec`            round-robin: bin `i` receives the sorted items at positions `≡ i (mod k)`;
  * `ffSpec`            first fit: the first bin whose load plus the item is `≤ B`, else a new bin;
  * `IsLPTRun`          LPT / greedy: items in *some* non-increasing order, each to *a* least-loaded bin;
  * `IsBestFitRun`      best fit: each item to *a* fullest bin in which it fits, else a new bin;
  * `nfdCoverSpec`      next-fit-decreasing cover: fill the current bin, close it as soon as it reaches `B`,
                        discard the last, unfinished bin;
  * `twoThirdsSpec`     Csirik–Frenk–Labbé–Zhang, "simple algorithm": open a bin with the largest remaining
                        item, add the smallest remaining items until the bin is covered;
  * `threeQuartersSpec` Csirik–Frenk–Labbé–Zhang, "improved simple algorithm": three classes.

  Section "PROOFS" relates the models of `Prtpy/Model/Simple.lean` to them.
-/
import PrtpyProofs.Fit
import PrtpyProofs.Part
import PrtpyProofs.Cover

open Prtpy
namespace Prtpy.Textbook

variable {α : Type}

/-! # SPECIFICATIONS -/

/-! ### 1. round-robin -/

/-- the elements of `l` whose position `j` (counted from `0`) satisfies `j % k = i`, in their order -/
def everyKth (k i : Nat) (l : List α) : List α :=
  (l.zipIdx.filter (fun p => p.2 % k = i)).map (·.1)

/-- Round-robin: sort by non-increasing value (stable); item number `j` goes to bin `j % k`. -/
def rrSpec (v : α → Nat) (k : Nat) (items : List α) : List (List α) :=
  (List.range k).map (fun i => everyKth k i (sortDesc v items))

/-! ### 2. first fit -/

/-- Put `x` into the first bin whose load plus `v x` is at most `B`; if there is none, open a new bin
    (at the end). -/
def ffInsert (v : α → Nat) (B : Nat) (x : α) : List (List α) → List (List α)
  | [] => [[x]]
  | bin :: bins => if binSum v bin + v x ≤ B then (bin ++ [x]) :: bins else bin :: ffInsert v B x bins

/-- First fit: start with no bins, insert the items one by one in the given order. -/
def ffSpec (v : α → Nat) (B : Nat) (items : List α) : List (List α) :=
  items.foldl (fun bins x => ffInsert v B x bins) []

/-- First fit decreasing: first fit on the items sorted by non-increasing value. -/
def ffdSpec (v : α → Nat) (B : Nat) (items : List α) : List (List α) :=
  ffSpec v B (sortDesc v items)

/-! ### runs of a non-deterministic rule -/

/-- `Run step b xs b'`: starting from `b`, the items `xs` are placed one after the other, every placement being
    allowed by `step`; the result is `b'`. -/
inductive Run (step : Bins α → α → Bins α → Prop) : Bins α → List α → Bins α → Prop
  | nil (b : Bins α) : Run step b [] b
  | cons {b b₁ b' : Bins α} {x : α} {xs : List α} :
      step b x b₁ → Run step b₁ xs b' → Run step b (x :: xs) b'

/-! ### 3. LPT (greedy number partitioning) -/

/-- `x` is put into *a* bin whose sum is minimum (any one of them). -/
def LPTStep (v : α → Nat) (b : Bins α) (x : α) (b' : Bins α) : Prop :=
  ∃ i, ∃ h : i < b.sums.length, (∀ s ∈ b.sums, b.sums[i] ≤ s) ∧ b' = b.add v x i

/-- An LPT run: the items are processed in *some* order of non-increasing value, starting from `k` empty bins,
    and each item goes to *a* bin of currently minimum sum.  Ties (between equal items, between equally
    loaded bins) are left open. -/
def IsLPTRun (v : α → Nat) (k : Nat) (items : List α) (b : Bins α) : Prop :=
  ∃ order : List α, order.Perm items ∧ order.Pairwise (fun a c => v c ≤ v a) ∧
    Run (LPTStep v) (Bins.new k) order b

/-! ### 4. best fit -/

/-- `x` is put into *a* bin of maximum sum among those in which it fits; if it fits nowhere, a new bin
    containing just `x` is opened at the end. -/
def BestFitStep (v : α → Nat) (B : Nat) (b : Bins α) (x : α) (b' : Bins α) : Prop :=
  (∃ i, ∃ h : i < b.sums.length, b.sums[i] + v x ≤ B ∧
      (∀ s ∈ b.sums, s + v x ≤ B → s ≤ b.sums[i]) ∧ b' = b.add v x i) ∨
  ((∀ s ∈ b.sums, ¬ s + v x ≤ B) ∧ b' = ⟨b.sums ++ [v x], b.lists ++ [[x]]⟩)

/-- A best-fit run: start with no bins, the items arrive in the given order. -/
def IsBestFitRun (v : α → Nat) (B : Nat) (items : List α) (b : Bins α) : Prop :=
  Run (BestFitStep v B) ⟨[], []⟩ items b

/-! ### 5. next-fit-decreasing cover -/

/-- Next-fit cover of the list `xs`, the bin being filled is `cur`:
    keep filling `cur`; as soon as its sum reaches `B`, it is finished and a new bin is started.
    What is in `cur` when the items run out is discarded. -/
def nfCover (v : α → Nat) (B : Nat) : List α → List α → List (List α)
  | _, [] => []
  | cur, x :: xs =>
    if B ≤ binSum v (cur ++ [x]) then (cur ++ [x]) :: nfCover v B [] xs else nfCover v B (cur ++ [x]) xs

/-- Next-fit-decreasing cover. -/
def nfdCoverSpec (v : α → Nat) (B : Nat) (items : List α) : List (List α) :=
  nfCover v B [] (sortDesc v items)

/-! ### 6. the two algorithms of Csirik, Frenk, Labbé and Zhang -/

/-- Add items from `smallestFirst` (in that order) to the bin `cur` until its sum reaches `B` or the items run
    out; returns the bin and the items that were not used. -/
def fillUp (v : α → Nat) (B : Nat) : List α → List α → List α × List α
  | cur, [] => (cur, [])
  | cur, y :: ys => if binSum v cur < B then fillUp v B (cur ++ [y]) ys else (cur, y :: ys)

theorem fillUp_length (v : α → Nat) (B : Nat) : ∀ (ys cur : List α),
    (fillUp v B cur ys).2.length ≤ ys.length
  | [], _ => Nat.le_refl _
  | y :: ys, cur => by
    simp only [fillUp]
    split
    · exact Nat.le_trans (fillUp_length v B ys _) (Nat.le_succ _)
    · exact Nat.le_refl _

/-- Bidirectional filling of a list sorted by non-increasing value:
    open a bin with the largest remaining item (the head), add the smallest remaining items (from the other
    end) until the bin is covered; a bin that cannot be covered is discarded (the items have run out then,
    see `fillUp_uncovered`). -/
def biFill (v : α → Nat) (B : Nat) : List α → List (List α)
  | [] => []
  | x :: rest =>
    let r := fillUp v B [x] rest.reverse
    if B ≤ binSum v r.1 then r.1 :: biFill v B r.2.reverse else []
termination_by l => l.length
decreasing_by
  have := fillUp_length v B rest.reverse [x]
  simp only [List.unattach_reverse, List.unattach_attach, List.length_reverse, List.length_cons] at *
  omega

/-- The "simple algorithm" (2/3). -/
def twoThirdsSpec (v : α → Nat) (B : Nat) (items : List α) : List (List α) :=
  biFill v B (sortDesc v items)

/-- How a bin is opened in the 3/4 algorithm: with the largest big item or with the two largest medium items
    (one, if only one is left), whichever weighs more — the big item on a tie.
    Returns (the opening items, the remaining big items, the remaining medium items). -/
def opening (v : α → Nat) : List α → List α → List α × List α × List α
  | x :: X, Y => if binSum v (Y.take 2) ≤ v x then ([x], X, Y) else (Y.take 2, x :: X, Y.drop 2)
  | [], Y => (Y.take 2, [], Y.drop 2)

theorem opening_length (v : α → Nat) (X Y : List α) (h : ¬ (X = [] ∧ Y = [])) :
    (opening v X Y).2.1.length + (opening v X Y).2.2.length < X.length + Y.length := by
  cases X with
  | nil =>
    cases Y with
    | nil => exact absurd ⟨rfl, rfl⟩ h
    | cons y Y => simp only [opening, List.length_nil, List.length_drop, List.length_cons]; omega
  | cons x X =>
    simp only [opening]
    split
    · simp only [List.length_cons]; omega
    · rename_i hlt
      cases Y with
      | nil => exact absurd (Nat.zero_le _) hlt
      | cons y Y => simp only [List.length_drop, List.length_cons]; omega

/-- Three-class filling.  `X` (big) and `Y` (medium) are sorted by non-increasing value, `Zasc` (small) by
    non-decreasing value; `cur` is the bin being filled.
    * no small items left: next-fit cover with the big, then the medium items;
    * only small items left: next-fit cover with them, largest first;
    * otherwise: open with `opening`, add the smallest small items until the bin is covered; if the small
      items run out before that, the bin stays the current one (and the first rule applies). -/
def threeClass (v : α → Nat) (B : Nat) (cur X Y Zasc : List α) : List (List α) :=
  if Zasc = [] then nfCover v B cur (X ++ Y)
  else if _h : X = [] ∧ Y = [] then nfCover v B cur Zasc.reverse
  else
    let o := opening v X Y
    let r := fillUp v B (cur ++ o.1) Zasc
    if B ≤ binSum v r.1 then r.1 :: threeClass v B [] o.2.1 o.2.2 r.2
    else threeClass v B r.1 o.2.1 o.2.2 r.2
termination_by X.length + Y.length
decreasing_by
  all_goals exact opening_length v X Y _h

/-- The "improved simple algorithm" (3/4): big items have `B ≤ 2·v`, medium items `B ≤ 3·v` and `2·v < B`,
    small items `3·v < B`. -/
def threeQuartersSpec (v : α → Nat) (B : Nat) (items : List α) : List (List α) :=
  let s := sortDesc v items
  threeClass v B []
    (s.filter (fun x => B ≤ 2 * v x))
    (s.filter (fun x => B ≤ 3 * v x ∧ 2 * v x < B))
    (s.filter (fun x => 3 * v x < B)).reverse

/-! # PROOFS -/

/-! ### 1. round-robin -/

/-- `everyKth` with positions counted from `n` -/
def pick (k i n : Nat) (l : List α) : List α :=
  ((l.zipIdx n).filter (fun p => p.2 % k = i)).map (·.1)

theorem pick_nil (k i n : Nat) : pick k i n ([] : List α) = [] := rfl

theorem pick_cons (k i n : Nat) (x : α) (l : List α) :
    pick k i n (x :: l) = if n % k = i then x :: pick k i (n + 1) l else pick k i (n + 1) l := by
  simp only [pick, List.zipIdx_cons, List.filter_cons]
  by_cases h : n % k = i <;> simp [h]

theorem rrLoop_lists (v : α → Nat) (k : Nat) : ∀ (xs : List α) (b : Bins α) (n : Nat),
    (rrLoop v k b (n % k) xs).lists = b.lists.mapIdx (fun j l => l ++ pick k j n xs)
  | [], b, n => by
    apply List.ext_getElem <;> simp [rrLoop, pick_nil]
  | x :: xs, b, n => by
    simp only [rrLoop]
    rw [Nat.mod_add_mod, rrLoop_lists v k xs _ (n + 1)]
    apply List.ext_getElem
    · simp [Bins.add]
    · intro j h₁ h₂
      simp only [List.getElem_mapIdx, Bins.add, List.getElem_modify, pick_cons]
      by_cases h : n % k = j <;> simp [h]

theorem roundrobin_eq_spec (v : α → Nat) (k : Nat) (items : List α) :
    (roundrobin v k items).lists = rrSpec v k items := by
  have := rrLoop_lists v k (sortDesc v items) (Bins.new k) 0
  rw [Nat.zero_mod] at this
  unfold roundrobin
  rw [this]
  apply List.ext_getElem
  · simp [rrSpec, Bins.new]
  · intro j h₁ h₂
    simp [rrSpec, Bins.new, pick, everyKth]

theorem rrLoop_consistent (v : α → Nat) (k : Nat) : ∀ (xs : List α) (b : Bins α) (i : Nat),
    b.Consistent v → (rrLoop v k b i xs).Consistent v
  | [], _, _, h => h
  | x :: xs, b, i, h => rrLoop_consistent v k xs _ _ (Part.add_consistent v b x i h)

/-- the sums are the sums of the textbook bins -/
theorem roundrobin_sums_eq_spec (v : α → Nat) (k : Nat) (items : List α) :
    (roundrobin v k items).sums = (rrSpec v k items).map (binSum v) := by
  rw [← roundrobin_eq_spec]
  exact rrLoop_consistent v k _ _ _ (Part.new_consistent v k)

/-- the doc-test of `roundrobin.py` -/
example : rrSpec id 3 [1, 2, 3, 3, 5, 9, 9] = [[9, 3, 1], [9, 3], [5, 2]] := by decide
example : (roundrobin id 3 [1, 2, 3, 3, 5, 9, 9]).lists = [[9, 3, 1], [9, 3], [5, 2]] :=
  (roundrobin_eq_spec id 3 [1, 2, 3, 3, 5, 9, 9]).trans (by decide)
example : (roundrobin id 3 [1, 2, 3, 3, 5, 9, 9]).sums = [13, 12, 7] :=
  (roundrobin_sums_eq_spec id 3 [1, 2, 3, 3, 5, 9, 9]).trans (by decide)

/-! ### 2. first fit -/

theorem ffInsert_first (v : α → Nat) (B : Nat) (x : α) : ∀ (ls : List (List α)) (i : Nat)
    (h : i < ls.length), binSum v ls[i] + v x ≤ B → (∀ j (hj : j < i), ¬ binSum v ls[j] + v x ≤ B) →
    ffInsert v B x ls = ls.modify i (· ++ [x])
  | [], _, h, _, _ => by simp at h
  | l :: ls, 0, _, hfit, _ => by
    simp only [List.getElem_cons_zero] at hfit
    simp [ffInsert, hfit]
  | l :: ls, i + 1, h, hfit, hno => by
    have h0 := hno 0 (Nat.succ_pos _)
    simp only [List.getElem_cons_zero] at h0
    simp only [ffInsert, if_neg h0, List.modify_succ_cons]
    rw [ffInsert_first v B x ls i (by simpa using h) (by simpa using hfit)]
    intro j hj
    have := hno (j + 1) (by omega)
    simpa using this

theorem ffInsert_none (v : α → Nat) (B : Nat) (x : α) : ∀ (ls : List (List α)),
    (∀ l ∈ ls, ¬ binSum v l + v x ≤ B) → ffInsert v B x ls = ls ++ [[x]]
  | [], _ => rfl
  | l :: ls, h => by
    simp only [ffInsert, if_neg (h l List.mem_cons_self), List.cons_append]
    rw [ffInsert_none v B x ls (fun l' hl' => h l' (List.mem_cons_of_mem _ hl'))]

/-- one step of the model on a consistent bins-array is `ffInsert` -/
theorem ffStep_eq_ffInsert (v : α → Nat) (B : Nat) (ls : List (List α)) (x : α) :
    ffStep v B ⟨ls.map (binSum v), ls⟩ x =
      ⟨(ffInsert v B x ls).map (binSum v), ffInsert v B x ls⟩ := by
  rcases Fit.ffStep_spec' v B ⟨ls.map (binSum v), ls⟩ x with ⟨i, h, hfit, hno, e⟩ | ⟨hno, e⟩
  · rw [e]
    have hi : i < ls.length := by simpa using h
    have e2 : ffInsert v B x ls = ls.modify i (· ++ [x]) := by
      apply ffInsert_first v B x ls i hi
      · simpa using hfit
      · intro j hj
        have := hno j hj
        simpa using this
    rw [e2]
    simp only [Bins.add, Fit.map_modify_binSum]
  · rw [e]
    have e2 : ffInsert v B x ls = ls ++ [[x]] := by
      apply ffInsert_none
      intro l hl
      exact hno _ (List.mem_map_of_mem hl)
    rw [e2, Fit.addEmpty_add v _ x (by simp)]
    simp [binSum, sumL]

theorem ffLoop_eq_foldl (v : α → Nat) (B : Nat) : ∀ (xs : List α) (ls : List (List α)) (b : Bins α),
    ffLoop v B ⟨ls.map (binSum v), ls⟩ xs = .ok b →
    b = ⟨(xs.foldl (fun bins x => ffInsert v B x bins) ls).map (binSum v),
      xs.foldl (fun bins x => ffInsert v B x bins) ls⟩
  | [], ls, b, h => by
    simp only [ffLoop, Except.ok.injEq] at h
    exact h.symm
  | x :: xs, ls, b, h => by
    simp only [ffLoop] at h
    split at h
    · cases h
    · rw [ffStep_eq_ffInsert] at h
      exact ffLoop_eq_foldl v B xs _ b h

/-- First fit (online), the whole result: for a non-empty input the model returns exactly the textbook bins
    (and their sums).  No hypothesis on the sizes is needed: a successful run implies `v x ≤ B` for all items. -/
theorem ffOnline_eq_spec' {v : α → Nat} {B : Nat} {items : List α} {b : Bins α} (hne : items ≠ [])
    (h : ffOnline v B items = .ok b) : b = ⟨(ffSpec v B items).map (binSum v), ffSpec v B items⟩ := by
  cases items with
  | nil => exact absurd rfl hne
  | cons x xs =>
    have hx : v x ≤ B :=
      Fit.gen_ok_all_le (by simpa only [ffOnline, Fit.ffLoop_eq] using h) x List.mem_cons_self
    have := ffLoop_eq_foldl v B (x :: xs) [[]] b h
    rw [this]
    have e : ffInsert v B x [[]] = ffInsert v B x [] := by
      simp [ffInsert, binSum, sumL, hx]
    simp only [ffSpec, List.foldl_cons, e]

/-- **First fit.**  For a non-empty list of items the model returns the textbook bins.
    (The hypothesis `∀ x ∈ items, v x ≤ B` of the task statement is not needed, it follows from `.ok`.) -/
theorem ffOnline_eq_spec {v : α → Nat} {B : Nat} {items : List α} {b : Bins α} (hne : items ≠ [])
    (h : ffOnline v B items = .ok b) : b.lists = ffSpec v B items := by
  rw [ffOnline_eq_spec' hne h]

theorem ffOnline_sums_eq_spec {v : α → Nat} {B : Nat} {items : List α} {b : Bins α} (hne : items ≠ [])
    (h : ffOnline v B items = .ok b) : b.sums = (ffSpec v B items).map (binSum v) := by
  rw [ffOnline_eq_spec' hne h]

/-- The one difference: on the empty input the Python function returns its initial empty bin, the textbook
    rule returns no bin.  (So the statement without `items ≠ []` is false.) -/
theorem ffOnline_nil (v : α → Nat) (B : Nat) :
    ffOnline v B ([] : List α) = .ok ⟨[0], [[]]⟩ ∧ ffSpec v B ([] : List α) = [] := ⟨rfl, rfl⟩

/-- the statement that holds for every input -/
theorem ffOnline_eq_spec_all {v : α → Nat} {B : Nat} {items : List α} {b : Bins α}
    (h : ffOnline v B items = .ok b) :
    b.lists = match items with | [] => [[]] | _ :: _ => ffSpec v B items := by
  cases items with
  | nil => cases h; rfl
  | cons x xs => exact ffOnline_eq_spec (by simp) h

/-- the doc-test of `first_fit.online` -/
example : ffSpec id 9 [1, 2, 3, 3, 5, 9, 9] = [[1, 2, 3, 3], [5], [9], [9]] := by decide
example : ∃ b, ffOnline id 9 [1, 2, 3, 3, 5, 9, 9] = .ok b ∧ b.lists = [[1, 2, 3, 3], [5], [9], [9]] :=
  ⟨_, rfl, (ffOnline_eq_spec (v := id) (B := 9) (items := [1, 2, 3, 3, 5, 9, 9]) (by decide) rfl).trans
    (by decide)⟩

theorem sortDesc_ne_nil (v : α → Nat) {items : List α} (h : items ≠ []) : sortDesc v items ≠ [] := by
  intro h0
  have := (Part.sortDesc_perm v items).length_eq
  rw [h0] at this
  exact h (List.length_eq_zero_iff.1 this.symm)

/-- **First fit decreasing.** -/
theorem ffDecreasing_eq_spec {v : α → Nat} {B : Nat} {items : List α} {b : Bins α} (hne : items ≠ [])
    (h : ffDecreasing v B items = .ok b) : b.lists = ffdSpec v B items :=
  ffOnline_eq_spec (sortDesc_ne_nil v hne) h

theorem ffDecreasing_sums_eq_spec {v : α → Nat} {B : Nat} {items : List α} {b : Bins α} (hne : items ≠ [])
    (h : ffDecreasing v B items = .ok b) : b.sums = (ffdSpec v B items).map (binSum v) :=
  ffOnline_sums_eq_spec (sortDesc_ne_nil v hne) h

/-- the doc-test of `first_fit.decreasing` (Wikipedia's non-monotonicity example) -/
example : ffdSpec id 60 [44, 24, 24, 22, 21, 17, 8, 8, 6, 6] = [[44, 8, 8], [24, 24, 6, 6], [22, 21, 17]] := by
  decide
example : ∃ b, ffDecreasing id 60 [44, 24, 24, 22, 21, 17, 8, 8, 6, 6] = .ok b ∧
    b.lists = [[44, 8, 8], [24, 24, 6, 6], [22, 21, 17]] :=
  ⟨_, rfl, (ffDecreasing_eq_spec (v := id) (B := 60) (items := [44, 24, 24, 22, 21, 17, 8, 8, 6, 6])
    (by decide) rfl).trans (by decide)⟩

/-! ### 5. next-fit-decreasing cover -/

/-- what is left in the unfinished bin after `nfCover` -/
def nfRest (v : α → Nat) (B : Nat) : List α → List α → List α
  | cur, [] => cur
  | cur, x :: xs => if B ≤ binSum v (cur ++ [x]) then nfRest v B [] xs else nfRest v B (cur ++ [x]) xs

/-- the bins-array with finished bins `c` and current bin `cur` (`Cover.mk`), closed form -/
theorem mk_removeLast (v : α → Nat) (c : List (List α)) (l : List α) :
    (Cover.mk v c l).removeLast 1 = ⟨c.map (binSum v), c⟩ := Cover.removeLast_mk v c l

theorem coverStep_mk (v : α → Nat) (B : Nat) (c : List (List α)) (cur : List α) (x : α) :
    coverStep v B (Cover.mk v c cur) x =
      if B ≤ binSum v (cur ++ [x]) then Cover.mk v (c ++ [cur ++ [x]]) [] else Cover.mk v c (cur ++ [x]) := by
  simp only [coverStep, Cover.addLast_mk, Cover.lastSum_mk]
  split
  · rw [Cover.addEmpty_mk]
  · rfl

theorem decrSub_mk (v : α → Nat) (B : Nat) : ∀ (xs : List α) (c : List (List α)) (cur : List α),
    decrSub v B (Cover.mk v c cur) xs = Cover.mk v (c ++ nfCover v B cur xs) (nfRest v B cur xs)
  | [], c, cur => by simp [decrSub, nfCover, nfRest]
  | x :: xs, c, cur => by
    have ih := decrSub_mk v B xs
    simp only [decrSub] at ih ⊢
    simp only [List.foldl_cons, coverStep_mk, nfCover, nfRest]
    split
    · rw [ih]; simp
    · rw [ih]

/-- **Next-fit-decreasing cover**, the whole result (bins and sums). -/
theorem coverDecreasing_eq_spec' (v : α → Nat) (B : Nat) (items : List α) :
    coverDecreasing v B items = ⟨(nfdCoverSpec v B items).map (binSum v), nfdCoverSpec v B items⟩ := by
  unfold coverDecreasing nfdCoverSpec
  rw [Cover.new_one v, decrSub_mk, mk_removeLast]
  simp

/-- **Next-fit-decreasing cover.** -/
theorem coverDecreasing_eq_spec (v : α → Nat) (B : Nat) (items : List α) :
    (coverDecreasing v B items).lists = nfdCoverSpec v B items := by
  rw [coverDecreasing_eq_spec']

theorem coverDecreasing_sums_eq_spec (v : α → Nat) (B : Nat) (items : List α) :
    (coverDecreasing v B items).sums = (nfdCoverSpec v B items).map (binSum v) := by
  rw [coverDecreasing_eq_spec']

/-- the doc-test of `greedy_covering.decreasing` -/
example : nfdCoverSpec id 10 [1, 2, 3, 4, 5, 6, 7, 8, 9, 10] = [[10], [9, 8], [7, 6], [5, 4, 3]] := by decide
example : (coverDecreasing id 10 [1, 2, 3, 4, 5, 6, 7, 8, 9, 10]).lists = [[10], [9, 8], [7, 6], [5, 4, 3]] :=
  (coverDecreasing_eq_spec id 10 [1, 2, 3, 4, 5, 6, 7, 8, 9, 10]).trans (by decide)

/-! ### 6a. the 2/3 algorithm -/

theorem fillUp_uncovered (v : α → Nat) (B : Nat) : ∀ (ys cur : List α),
    binSum v (fillUp v B cur ys).1 < B → (fillUp v B cur ys).2 = []
  | [], _, _ => rfl
  | y :: ys, cur, h => by
    simp only [fillUp] at h ⊢
    split
    · rename_i hlt
      rw [if_pos hlt] at h
      exact fillUp_uncovered v B ys _ h
    · rename_i hlt
      rw [if_neg hlt] at h
      exact absurd h hlt

/-- the inner `while` of both algorithms, on the ascending view of the remaining items -/
theorem fillFromSmall_mk (v : α → Nat) (B : Nat) (c : List (List α)) : ∀ (asc : List α) (fuel : Nat)
    (cur : List α), asc.length ≤ fuel →
    fillFromSmall v B fuel (Cover.mk v c cur) asc.reverse =
      (Cover.mk v c (fillUp v B cur asc).1, (fillUp v B cur asc).2.reverse)
  | [], fuel, cur, _ => by
    cases fuel with
    | zero => rfl
    | succ f =>
      simp only [fillFromSmall, List.reverse_nil, List.getLast?_nil, fillUp]
      split <;> rfl
  | y :: ys, 0, _, h => by simp at h
  | y :: ys, f + 1, cur, h => by
    simp only [fillFromSmall, Cover.lastSum_mk, List.reverse_cons, List.getLast?_append,
      List.getLast?_singleton, Option.some_or, List.dropLast_concat, fillUp]
    split
    · rw [Cover.addLast_mk]
      exact fillFromSmall_mk v B c ys f _ (by simpa using h)
    · simp

theorem closeIfFull_mk (v : α → Nat) (B : Nat) (c : List (List α)) (cur : List α) :
    closeIfFull B (Cover.mk v c cur) =
      if B ≤ binSum v cur then Cover.mk v (c ++ [cur]) [] else Cover.mk v c cur := by
  simp only [closeIfFull, Cover.lastSum_mk]
  split
  · rw [Cover.addEmpty_mk]
  · rfl

theorem twoThirdsLoop_nil (v : α → Nat) (B : Nat) (fuel : Nat) (b : Bins α) :
    twoThirdsLoop v B fuel b [] = b := by
  cases fuel <;> rfl

theorem twoThirdsLoop_mk (v : α → Nat) (B : Nat) : ∀ (fuel : Nat) (l : List α) (c : List (List α)),
    l.length ≤ fuel → ∃ l', twoThirdsLoop v B fuel (Cover.mk v c []) l = Cover.mk v (c ++ biFill v B l) l'
  | fuel, [], c, _ => ⟨[], by rw [twoThirdsLoop_nil, biFill]; simp⟩
  | 0, x :: rest, _, h => by simp at h
  | fuel + 1, x :: rest, c, h => by
    have key := fillFromSmall_mk v B c rest.reverse rest.length [x] (by simp)
    rw [List.reverse_reverse] at key
    have hlen := fillUp_length v B rest.reverse [x]
    simp only [List.length_reverse, List.length_cons] at hlen h
    simp only [twoThirdsLoop, Cover.addLast_mk, List.nil_append, key, closeIfFull_mk]
    rw [biFill]
    split
    · obtain ⟨l', e⟩ := twoThirdsLoop_mk v B fuel (fillUp v B [x] rest.reverse).2.reverse
        (c ++ [(fillUp v B [x] rest.reverse).1]) (by simp only [List.length_reverse]; omega)
      exact ⟨l', by rw [e]; simp⟩
    · rename_i hnot
      rw [fillUp_uncovered v B _ _ (by omega)]
      exact ⟨(fillUp v B [x] rest.reverse).1, by rw [List.reverse_nil, twoThirdsLoop_nil]; simp⟩

/-- **The 2/3 algorithm**, the whole result (bins and sums). -/
theorem twoThirds_eq_spec' (v : α → Nat) (B : Nat) (items : List α) :
    twoThirds v B items = ⟨(twoThirdsSpec v B items).map (binSum v), twoThirdsSpec v B items⟩ := by
  unfold twoThirds twoThirdsSpec
  obtain ⟨l', e⟩ := twoThirdsLoop_mk v B (sortDesc v items).length (sortDesc v items) [] (Nat.le_refl _)
  simp only [Cover.new_one v, e, mk_removeLast, List.nil_append]

/-- **The 2/3 algorithm.** -/
theorem twoThirds_eq_spec (v : α → Nat) (B : Nat) (items : List α) :
    (twoThirds v B items).lists = twoThirdsSpec v B items := by
  rw [twoThirds_eq_spec']

theorem twoThirds_sums_eq_spec (v : α → Nat) (B : Nat) (items : List α) :
    (twoThirds v B items).sums = (twoThirdsSpec v B items).map (binSum v) := by
  rw [twoThirds_eq_spec']

/-- the doc-test of `cflz_covering.twothirds` -/
example : twoThirdsSpec id 10 [1, 2, 3, 4, 5, 6, 7, 8, 9, 10] = [[10], [9, 1], [8, 2], [7, 3], [6, 4]] := by
  simp [twoThirdsSpec, sortDesc, insertDesc, biFill, fillUp, binSum, sumL]
example : (twoThirds id 10 [1, 2, 3, 4, 5, 6, 7, 8, 9, 10]).lists = [[10], [9, 1], [8, 2], [7, 3], [6, 4]] :=
  (twoThirds_eq_spec id 10 [1, 2, 3, 4, 5, 6, 7, 8, 9, 10]).trans
    (by simp [twoThirdsSpec, sortDesc, insertDesc, biFill, fillUp, binSum, sumL])

/-! ### 6b. the 3/4 algorithm -/

theorem foldl_addLast_mk (v : α → Nat) (c : List (List α)) : ∀ (l cur : List α),
    l.foldl (Bins.addLast v) (Cover.mk v c cur) = Cover.mk v c (cur ++ l)
  | [], cur => by simp
  | x :: l, cur => by
    simp only [List.foldl_cons, Cover.addLast_mk]
    rw [foldl_addLast_mk v c l]
    simp

/-- the way the model opens a bin is `opening` (the medium items have positive value) -/
theorem model_opening (v : α → Nat) (X Y : List α) (hne : ¬ (X = [] ∧ Y = [])) (hY : ∀ y ∈ Y, 0 < v y) :
    ((if binSum v (Y.take 2) ≤ binSum v (X.take 1) then X.take 1 else Y.take 2),
      (if binSum v (Y.take 2) ≤ binSum v (X.take 1) then X.drop 1 else X),
      (if binSum v (Y.take 2) ≤ binSum v (X.take 1) then Y else Y.drop 2)) = opening v X Y := by
  cases X with
  | nil =>
    cases Y with
    | nil => exact absurd ⟨rfl, rfl⟩ hne
    | cons y Y =>
      have hy := hY y List.mem_cons_self
      have : ¬ binSum v ((y :: Y).take 2) ≤ binSum v (([] : List α).take 1) := by
        cases Y <;> simp [binSum, sumL] <;> omega
      simp only [if_neg this, opening]
  | cons x X =>
    have e : binSum v ((x :: X).take 1) = v x := by simp [binSum, sumL]
    simp only [e, opening]
    split <;> simp

theorem opening_sub (v : α → Nat) (X Y : List α) : ∀ y ∈ (opening v X Y).2.2, y ∈ Y := by
  intro y hy
  cases X with
  | nil => exact List.mem_of_mem_drop hy
  | cons x X =>
    simp only [opening] at hy
    split at hy
    · exact hy
    · exact List.mem_of_mem_drop hy

theorem threeQuartersLoop_mk (v : α → Nat) (B : Nat) : ∀ (fuel : Nat) (X Y Zasc : List α)
    (c : List (List α)) (cur : List α), X.length + Y.length < fuel → (∀ y ∈ Y, 0 < v y) →
    ∃ l', threeQuartersLoop v B fuel (Cover.mk v c cur) X Y Zasc.reverse =
      Cover.mk v (c ++ threeClass v B cur X Y Zasc) l'
  | 0, _, _, _, _, _, h, _ => by omega
  | fuel + 1, X, Y, Zasc, c, cur, h, hY => by
    rw [threeQuartersLoop, threeClass]
    by_cases hZ : Zasc = []
    · subst hZ
      simp only [List.reverse_nil, List.isEmpty_nil, if_true]
      refine ⟨nfRest v B cur (X ++ Y), ?_⟩
      have := decrSub_mk v B (X ++ Y) c cur
      simp only [decrSub, List.foldl_append] at this ⊢
      exact this
    · have hZ' : Zasc.reverse.isEmpty = false := by simpa using hZ
      rw [hZ', if_neg hZ]
      simp only [Bool.false_eq_true, if_false]
      by_cases hXY : X = [] ∧ Y = []
      · obtain ⟨rfl, rfl⟩ := hXY
        simp only [List.isEmpty_nil, Bool.and_self, if_true, and_self, dite_true]
        exact ⟨_, decrSub_mk v B Zasc.reverse c cur⟩
      · have hXY' : (X.isEmpty && Y.isEmpty) = false := by
          simpa [List.isEmpty_iff] using hXY
        rw [hXY', dif_neg hXY]
        simp only [Bool.false_eq_true, if_false]
        have ho := model_opening v X Y hXY hY
        simp only [Prod.ext_iff] at ho
        obtain ⟨ho1, ho2, ho3⟩ := ho
        have e1 : (if decide (binSum v (Y.take 2) ≤ binSum v (X.take 1)) = true
            then (X.take 1).foldl (Bins.addLast v) (Cover.mk v c cur)
            else (Y.take 2).foldl (Bins.addLast v) (Cover.mk v c cur)) =
            Cover.mk v c (cur ++ (opening v X Y).1) := by
          rw [← ho1]
          by_cases hu : binSum v (Y.take 2) ≤ binSum v (X.take 1) <;>
            simp [hu, foldl_addLast_mk]
        have e2 : (if decide (binSum v (Y.take 2) ≤ binSum v (X.take 1)) = true then X.drop 1 else X) =
            (opening v X Y).2.1 := by
          rw [← ho2]; simp
        have e3 : (if decide (binSum v (Y.take 2) ≤ binSum v (X.take 1)) = true then Y else Y.drop 2) =
            (opening v X Y).2.2 := by
          rw [← ho3]; simp
        have key := fillFromSmall_mk v B c Zasc Zasc.reverse.length (cur ++ (opening v X Y).1) (by simp)
        simp only [e1, e2, e3, key, closeIfFull_mk]
        have hlen := opening_length v X Y hXY
        have hY' : ∀ y ∈ (opening v X Y).2.2, 0 < v y := fun y hy => hY y (opening_sub v X Y y hy)
        split
        · obtain ⟨l', e⟩ := threeQuartersLoop_mk v B fuel (opening v X Y).2.1 (opening v X Y).2.2
            (fillUp v B (cur ++ (opening v X Y).1) Zasc).2
            (c ++ [(fillUp v B (cur ++ (opening v X Y).1) Zasc).1]) [] (by omega) hY'
          exact ⟨l', by rw [e]; simp⟩
        · exact threeQuartersLoop_mk v B fuel _ _ _ c _ (by omega) hY'

theorem filter_isMedium (v : α → Nat) (B : Nat) (s : List α) :
    s.filter (isMedium v B) = s.filter (fun x => B ≤ 3 * v x ∧ 2 * v x < B) := by
  apply List.filter_congr
  intro x _
  simp [isMedium]

/-- **The 3/4 algorithm**, the whole result (bins and sums). -/
theorem threeQuarters_eq_spec' (v : α → Nat) (B : Nat) (items : List α) :
    threeQuarters v B items =
      ⟨(threeQuartersSpec v B items).map (binSum v), threeQuartersSpec v B items⟩ := by
  unfold threeQuarters threeQuartersSpec
  have hp := (Cover.classes_perm v B (sortDesc v items)).length_eq
  simp only [List.length_append] at hp
  obtain ⟨l', e⟩ := threeQuartersLoop_mk v B ((sortDesc v items).length + 1)
    ((sortDesc v items).filter (isBig v B)) ((sortDesc v items).filter (isMedium v B))
    ((sortDesc v items).filter (isSmall v B)).reverse [] [] (by omega) (by
      intro y hy
      have := (List.mem_filter.1 hy).2
      simp only [isMedium, Bool.and_eq_true, decide_eq_true_eq] at this
      omega)
  rw [List.reverse_reverse] at e
  simp only [Cover.new_one v]
  rw [e, mk_removeLast, List.nil_append, filter_isMedium]
  rfl

/-- **The 3/4 algorithm.** -/
theorem threeQuarters_eq_spec (v : α → Nat) (B : Nat) (items : List α) :
    (threeQuarters v B items).lists = threeQuartersSpec v B items := by
  rw [threeQuarters_eq_spec']

theorem threeQuarters_sums_eq_spec (v : α → Nat) (B : Nat) (items : List α) :
    (threeQuarters v B items).sums = (threeQuartersSpec v B items).map (binSum v) := by
  rw [threeQuarters_eq_spec']

/-- the doc-tests of `cflz_covering.threequarters` -/
example : threeQuartersSpec id 10 [1, 2, 3, 4, 5, 6, 7, 8, 9, 10] =
    [[10], [9, 1], [8, 2], [7, 3], [6, 5]] := by
  simp [threeQuartersSpec, sortDesc, insertDesc, threeClass, opening, nfCover, fillUp, binSum, sumL]
example : threeQuartersSpec id 1000 [994, 501, 501, 499, 499, 499, 499, 1, 1, 1, 1, 1, 1, 1, 1, 1, 1, 1, 1] =
    [[499, 499, 1, 1], [499, 499, 1, 1], [994, 1, 1, 1, 1, 1, 1], [501, 1, 1, 501]] := by
  simp [threeQuartersSpec, sortDesc, insertDesc, threeClass, opening, nfCover, fillUp, binSum, sumL]
example : (threeQuarters id 10 [1, 2, 3, 4, 5, 6, 7, 8, 9, 10]).lists =
    [[10], [9, 1], [8, 2], [7, 3], [6, 5]] :=
  (threeQuarters_eq_spec id 10 [1, 2, 3, 4, 5, 6, 7, 8, 9, 10]).trans (by
    simp [threeQuartersSpec, sortDesc, insertDesc, threeClass, opening, nfCover, fillUp, binSum, sumL])

/-! ### 3. LPT -/

theorem perm_getElem_cons_eraseIdx : ∀ (l : List Nat) (i : Nat) (h : i < l.length),
    l.Perm (l[i] :: l.eraseIdx i)
  | [], _, h => by simp at h
  | a :: l, 0, _ => List.Perm.refl _
  | a :: l, i + 1, h => by
    have ih := perm_getElem_cons_eraseIdx l i (by simpa using h)
    simp only [List.getElem_cons_succ, List.eraseIdx_cons_succ]
    exact (ih.cons a).trans (List.Perm.swap _ _ _)

theorem modify_perm_cons_eraseIdx (f : Nat → Nat) : ∀ (l : List Nat) (i : Nat) (h : i < l.length),
    (l.modify i f).Perm (f l[i] :: l.eraseIdx i)
  | [], _, h => by simp at h
  | a :: l, 0, _ => List.Perm.refl _
  | a :: l, i + 1, h => by
    have ih := modify_perm_cons_eraseIdx f l i (by simpa using h)
    simp only [List.getElem_cons_succ, List.eraseIdx_cons_succ, List.modify_succ_cons]
    exact (ih.cons a).trans (List.Perm.swap _ _ _)

/-- changing, in two lists with the same elements, one occurrence of the same value in the same way -/
theorem modify_perm_modify {s t : List Nat} (hp : s.Perm t) {i j : Nat} (hi : i < s.length)
    (hj : j < t.length) (e : s[i] = t[j]) (f : Nat → Nat) : (s.modify i f).Perm (t.modify j f) := by
  have h1 := perm_getElem_cons_eraseIdx s i hi
  have h2 := perm_getElem_cons_eraseIdx t j hj
  have h3 : (s.eraseIdx i).Perm (t.eraseIdx j) := by
    have := (h1.symm.trans hp).trans h2
    rw [e] at this
    exact this.cons_inv
  refine (modify_perm_cons_eraseIdx f s i hi).trans (List.Perm.trans ?_ (modify_perm_cons_eraseIdx f t j hj).symm)
  rw [e]
  exact h3.cons _

/-- the least-loaded bins of two arrays with the same multiset of sums have the same sum, so adding the same
    value to either gives again the same multiset -/
theorem min_step_perm {s t : List Nat} (hp : s.Perm t) {i j : Nat} (hi : i < s.length) (hj : j < t.length)
    (mi : ∀ x ∈ s, s[i] ≤ x) (mj : ∀ x ∈ t, t[j] ≤ x) (a : Nat) :
    (s.modify i (· + a)).Perm (t.modify j (· + a)) := by
  refine modify_perm_modify hp hi hj ?_ _
  have h1 := mi _ (hp.mem_iff.2 (List.getElem_mem hj))
  have h2 := mj _ (hp.mem_iff.1 (List.getElem_mem hi))
  omega

theorem lpt_runs_perm (v : α → Nat) : ∀ (o₁ o₂ : List α), o₁.map v = o₂.map v →
    ∀ (b₁ b₂ b₁' b₂' : Bins α), b₁.sums.Perm b₂.sums →
      Run (LPTStep v) b₁ o₁ b₁' → Run (LPTStep v) b₂ o₂ b₂' → b₁'.sums.Perm b₂'.sums
  | [], o₂, ho, b₁, b₂, b₁', b₂', hp, r₁, r₂ => by
    have : o₂ = [] := by simpa using ho.symm
    subst this
    cases r₁; cases r₂
    exact hp
  | x :: o₁, [], ho, _, _, _, _, _, _, _ => by simp at ho
  | x :: o₁, y :: o₂, ho, b₁, b₂, b₁', b₂', hp, r₁, r₂ => by
    simp only [List.map_cons, List.cons.injEq] at ho
    cases r₁ with
    | cons s₁ r₁ =>
      cases r₂ with
      | cons s₂ r₂ =>
        obtain ⟨i, hi, mi, rfl⟩ := s₁
        obtain ⟨j, hj, mj, rfl⟩ := s₂
        refine lpt_runs_perm v o₁ o₂ ho.2 _ _ _ _ ?_ r₁ r₂
        simp only [Bins.add, ho.1]
        exact min_step_perm hp hi hj mi mj (v y)

theorem greedy_fold_run (v : α → Nat) : ∀ (xs : List α) (b : Bins α), b.sums ≠ [] →
    Run (LPTStep v) b xs (xs.foldl (greedyStep v) b)
  | [], b, _ => Run.nil b
  | x :: xs, b, hne => by
    have hlt := Part.argmin_lt hne
    refine Run.cons (b₁ := greedyStep v b x) ⟨argmin b.sums, hlt, ?_, rfl⟩ (greedy_fold_run v xs _ ?_)
    · intro s hs
      rw [Part.getElem_argmin hlt]
      exact Part.minL_le hs
    · intro h0
      apply hne
      have := congrArg List.length h0
      simpa [greedyStep, Bins.add] using this

/-- **Greedy is an LPT run** (it sorts stably and takes the first least-loaded bin). -/
theorem greedy_is_lpt_run {v : α → Nat} {k : Nat} {items : List α} (hk : 0 < k) :
    IsLPTRun v k items (greedy v k items) := by
  refine ⟨sortDesc v items, Part.sortDesc_perm v items, Part.sortDesc_sorted v items, ?_⟩
  apply greedy_fold_run
  intro h0
  have := congrArg List.length h0
  simp [Bins.new] at this
  omega

example : IsLPTRun id 3 [1, 2, 3, 3, 5, 9, 9] (greedy id 3 [1, 2, 3, 3, 5, 9, 9]) :=
  greedy_is_lpt_run (by decide)
example : (greedy id 3 [1, 2, 3, 3, 5, 9, 9]).lists = [[9, 2], [9, 1], [5, 3, 3]] := by decide

theorem sorted_values_unique (v : α → Nat) {o₁ o₂ : List α} (hp : o₁.Perm o₂)
    (h₁ : o₁.Pairwise (fun a c => v c ≤ v a)) (h₂ : o₂.Pairwise (fun a c => v c ≤ v a)) :
    o₁.map v = o₂.map v := by
  refine List.Perm.eq_of_pairwise (le := fun a c => c ≤ a) ?_ ?_ ?_ (hp.map v)
  · intro a b _ _ h1 h2; omega
  · exact List.pairwise_map.2 h₁
  · exact List.pairwise_map.2 h₂

/-- **Ties cannot matter**: any two LPT runs on the same items end with the same multiset of bin sums. -/
theorem lpt_runs_same_sums {v : α → Nat} {k : Nat} {items : List α} {b b' : Bins α}
    (h : IsLPTRun v k items b) (h' : IsLPTRun v k items b') : b.sums.Perm b'.sums := by
  obtain ⟨o₁, p₁, s₁, r₁⟩ := h
  obtain ⟨o₂, p₂, s₂, r₂⟩ := h'
  exact lpt_runs_perm v o₁ o₂ (sorted_values_unique v (p₁.trans p₂.symm) s₁ s₂) _ _ _ _
    (List.Perm.refl _) r₁ r₂

/-- so every transcription of the LPT rule has the sums of `greedy`, up to the order of the bins -/
theorem lpt_run_sums_perm_greedy {v : α → Nat} {k : Nat} {items : List α} {b : Bins α} (hk : 0 < k)
    (h : IsLPTRun v k items b) : b.sums.Perm (greedy v k items).sums :=
  lpt_runs_same_sums h (greedy_is_lpt_run hk)

/-- another LPT run on `[3, 2]`: the first item goes to the *second* (equally empty) bin -/
theorem lpt_other_run : IsLPTRun id 2 [3, 2] ⟨[2, 3], [[2], [3]]⟩ := by
  refine ⟨[3, 2], List.Perm.refl _, by simp, ?_⟩
  refine Run.cons (b₁ := ⟨[0, 3], [[], [3]]⟩) ⟨1, by decide, by decide, rfl⟩ ?_
  exact Run.cons (b₁ := ⟨[2, 3], [[2], [3]]⟩) ⟨0, by decide, by decide, rfl⟩ (Run.nil _)

example : [2, 3].Perm (greedy id 2 [3, 2]).sums :=
  lpt_runs_same_sums lpt_other_run (greedy_is_lpt_run (by decide))
example : (greedy id 2 [3, 2]).sums = [3, 2] := by decide

/-! ### 4. best fit -/

/-- one step of the model is a best-fit step (it takes the *first* of the fullest bins with room) -/
theorem bfStep_bestFitStep (v : α → Nat) (B : Nat) (b : Bins α) (x : α)
    (hl : b.sums.length = b.lists.length) : BestFitStep v B b x (bfStep v B b x) := by
  rcases Fit.bfStep_spec v B b x with ⟨i, h, hfit, hmax, _, e⟩ | ⟨hno, e⟩
  · refine Or.inl ⟨i, h, hfit, ?_, e⟩
    intro s hs hsfit
    obtain ⟨j, hj, rfl⟩ := List.getElem_of_mem hs
    exact hmax j hj hsfit
  · exact Or.inr ⟨hno, by rw [e, Fit.addEmpty_add v b x hl]⟩

theorem bestFitStep_lengths {v : α → Nat} {B : Nat} {b b' : Bins α} {x : α}
    (hs : BestFitStep v B b x b') (hl : b.sums.length = b.lists.length) :
    b'.sums.length = b'.lists.length := by
  rcases hs with ⟨i, _, _, _, rfl⟩ | ⟨_, rfl⟩
  · simpa [Bins.add] using hl
  · simpa using hl

theorem bf_fold_run (v : α → Nat) (B : Nat) : ∀ (xs : List α) (b : Bins α),
    b.sums.length = b.lists.length → Run (BestFitStep v B) b xs (xs.foldl (bfStep v B) b)
  | [], b, _ => Run.nil b
  | x :: xs, b, hl =>
    Run.cons (bfStep_bestFitStep v B b x hl)
      (bf_fold_run v B xs _ (bestFitStep_lengths (bfStep_bestFitStep v B b x hl) hl))

/-- **Best fit (online) is a best-fit run.**  As for first fit, the input must be non-empty: on the empty
    input the Python function returns its initial empty bin, the textbook rule no bin. -/
theorem bfOnline_is_bestfit_run {v : α → Nat} {B : Nat} {items : List α} {b : Bins α} (hne : items ≠ [])
    (h : bfOnline v B items = .ok b) : IsBestFitRun v B items b := by
  cases items with
  | nil => exact absurd rfl hne
  | cons x xs =>
    simp only [bfOnline, Fit.bfLoop_eq] at h
    have hall := Fit.gen_ok_all_le h
    rw [Fit.genLoop_ok v B _ _ _ hall] at h
    cases h
    have hx : v x ≤ B := hall x List.mem_cons_self
    have e : bfStep v B (Bins.new 1) x = ⟨[v x], [[x]]⟩ := by
      rcases Fit.bfStep_spec v B (Bins.new 1 : Bins α) x with ⟨i, h, _, _, _, e⟩ | ⟨hno, _⟩
      · have : i = 0 := by simp [Bins.new] at h; exact h
        subst this
        rw [e]
        simp [Bins.add, Bins.new]
      · exact absurd (by simpa using hx) (hno 0 (by simp [Bins.new]))
    rw [List.foldl_cons, e]
    exact Run.cons (Or.inr ⟨by simp, rfl⟩) (bf_fold_run v B xs _ rfl)

theorem bfOnline_nil (v : α → Nat) (B : Nat) :
    bfOnline v B ([] : List α) = .ok ⟨[0], [[]]⟩ ∧ IsBestFitRun v B ([] : List α) ⟨[], []⟩ :=
  ⟨rfl, Run.nil _⟩

/-- **Best fit decreasing** is a best-fit run on the items sorted by non-increasing value. -/
theorem bfDecreasing_is_bestfit_run {v : α → Nat} {B : Nat} {items : List α} {b : Bins α}
    (hne : items ≠ []) (h : bfDecreasing v B items = .ok b) : IsBestFitRun v B (sortDesc v items) b :=
  bfOnline_is_bestfit_run (sortDesc_ne_nil v hne) h

/-- the doc-test of `best_fit.online` -/
example : IsBestFitRun id 9 [4, 7, 2, 1, 5, 8, 4] ⟨[9, 9, 5, 8], [[4, 1, 4], [7, 2], [5], [8]]⟩ :=
  bfOnline_is_bestfit_run (v := id) (B := 9) (items := [4, 7, 2, 1, 5, 8, 4]) (by decide) rfl
example : IsBestFitRun id 9 (sortDesc id [4, 7, 2, 1, 5, 8, 4])
    ⟨[9, 9, 9, 4], [[8, 1], [7, 2], [5, 4], [4]]⟩ :=
  bfDecreasing_is_bestfit_run (v := id) (B := 9) (items := [4, 7, 2, 1, 5, 8, 4]) (by decide) rfl

/-- one best-fit step on two arrays with the same multiset of sums gives the same multiset of sums -/
theorem bestFitStep_perm {v : α → Nat} {B : Nat} {b₁ b₂ b₁' b₂' : Bins α} {x : α}
    (hp : b₁.sums.Perm b₂.sums) (s₁ : BestFitStep v B b₁ x b₁') (s₂ : BestFitStep v B b₂ x b₂') :
    b₁'.sums.Perm b₂'.sums := by
  rcases s₁ with ⟨i, hi, fi, mi, rfl⟩ | ⟨n₁, rfl⟩ <;> rcases s₂ with ⟨j, hj, fj, mj, rfl⟩ | ⟨n₂, rfl⟩
  · refine modify_perm_modify hp hi hj ?_ _
    have h1 := mi _ (hp.mem_iff.2 (List.getElem_mem hj)) fj
    have h2 := mj _ (hp.mem_iff.1 (List.getElem_mem hi)) fi
    omega
  · exact absurd fi (n₂ _ (hp.mem_iff.1 (List.getElem_mem hi)))
  · exact absurd fj (n₁ _ (hp.mem_iff.2 (List.getElem_mem hj)))
  · exact hp.append_right _

theorem bestfit_runs_perm (v : α → Nat) (B : Nat) : ∀ (xs : List α) (b₁ b₂ b₁' b₂' : Bins α),
    b₁.sums.Perm b₂.sums → Run (BestFitStep v B) b₁ xs b₁' → Run (BestFitStep v B) b₂ xs b₂' →
    b₁'.sums.Perm b₂'.sums
  | [], _, _, _, _, hp, r₁, r₂ => by cases r₁; cases r₂; exact hp
  | x :: xs, _, _, _, _, hp, r₁, r₂ => by
    cases r₁ with
    | cons s₁ r₁ =>
      cases r₂ with
      | cons s₂ r₂ => exact bestfit_runs_perm v B xs _ _ _ _ (bestFitStep_perm hp s₁ s₂) r₁ r₂

/-- **Ties cannot matter**: two best-fit runs on the same arrival order end with the same multiset of sums. -/
theorem bestfit_runs_same_sums {v : α → Nat} {B : Nat} {items : List α} {b b' : Bins α}
    (h : IsBestFitRun v B items b) (h' : IsBestFitRun v B items b') : b.sums.Perm b'.sums :=
  bestfit_runs_perm v B items _ _ _ _ (List.Perm.refl _) h h'

/-- another best-fit run on `[6, 6, 4]`, `B = 10`: the `4` goes to the *second* of the two equally full bins
    (the model takes the first) -/
theorem bestfit_other_run : IsBestFitRun id 10 [6, 6, 4] ⟨[6, 10], [[6], [6, 4]]⟩ := by
  refine Run.cons (b₁ := ⟨[6], [[6]]⟩) (Or.inr ⟨by simp, rfl⟩) ?_
  refine Run.cons (b₁ := ⟨[6, 6], [[6], [6]]⟩) (Or.inr ⟨by simp, rfl⟩) ?_
  exact Run.cons (b₁ := ⟨[6, 10], [[6], [6, 4]]⟩) (Or.inl ⟨1, by decide, by decide, by decide, rfl⟩)
    (Run.nil _)

example : [6, 10].Perm [10, 6] :=
  bestfit_runs_same_sums bestfit_other_run
    (bfOnline_is_bestfit_run (v := id) (B := 10) (items := [6, 6, 4]) (b := ⟨[10, 6], [[6, 4], [6]]⟩)
      (by decide) rfl)

end Prtpy.Textbook

/-
Axiom audit (`#print axioms`, observed with Lean 4.33.0):

#print axioms Prtpy.Textbook.roundrobin_eq_spec            -- [propext, Classical.choice, Quot.sound]
#print axioms Prtpy.Textbook.roundrobin_sums_eq_spec       -- [propext, Classical.choice, Quot.sound]
#print axioms Prtpy.Textbook.ffOnline_eq_spec              -- [propext, Classical.choice, Quot.sound]
#print axioms Prtpy.Textbook.ffOnline_eq_spec_all          -- [propext, Classical.choice, Quot.sound]
#print axioms Prtpy.Textbook.ffOnline_sums_eq_spec         -- [propext, Classical.choice, Quot.sound]
#print axioms Prtpy.Textbook.ffDecreasing_eq_spec          -- [propext, Classical.choice, Quot.sound]
#print axioms Prtpy.Textbook.ffDecreasing_sums_eq_spec     -- [propext, Classical.choice, Quot.sound]
#print axioms Prtpy.Textbook.coverDecreasing_eq_spec       -- [propext, Quot.sound]
#print axioms Prtpy.Textbook.coverDecreasing_sums_eq_spec  -- [propext, Quot.sound]
#print axioms Prtpy.Textbook.greedy_is_lpt_run             -- [propext, Classical.choice, Quot.sound]
#print axioms Prtpy.Textbook.lpt_runs_same_sums            -- [propext, Quot.sound]
#print axioms Prtpy.Textbook.lpt_run_sums_perm_greedy      -- [propext, Classical.choice, Quot.sound]
#print axioms Prtpy.Textbook.twoThirds_eq_spec             -- [propext, Quot.sound]
#print axioms Prtpy.Textbook.twoThirds_sums_eq_spec        -- [propext, Quot.sound]
#print axioms Prtpy.Textbook.threeQuarters_eq_spec         -- [propext, Classical.choice, Quot.sound]
#print axioms Prtpy.Textbook.threeQuarters_sums_eq_spec    -- [propext, Classical.choice, Quot.sound]
#print axioms Prtpy.Textbook.bfOnline_is_bestfit_run       -- [propext, Classical.choice, Quot.sound]
#print axioms Prtpy.Textbook.bfDecreasing_is_bestfit_run   -- [propext, Classical.choice, Quot.sound]
#print axioms Prtpy.Textbook.bestfit_runs_same_sums        -- [propext, Quot.sound]
-/
