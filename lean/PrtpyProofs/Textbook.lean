/-
  PrtpyProofs.Textbook — property C14: every simple heuristic computes what its documentation says.

  Section "SPECIFICATIONS" contains *textbook* formulations of the nine rules, written on plain lists
  (no bins-array, no indices into it, no `-1`, no fuel, no `(index, new_sum)` pairs).  They are meant to be
  compared with the cited sources in a minute:

  * `rrSpec`            round-robin: bin `i` receives the sorted items at positions `≡ i (mod k)`;
  * `ffSpec`            first fit: the first bin whose load plus the item is `≤ B`, else a new bin;
  * `IsLPTRun`          LPT / greedy: items in *some* non-increasing order, each to *a* least-loaded bin;
  * `IsBestFitRun`      best fit: each item to *a* fullest bin in which it fits, else a new bin;
  * `nfdCoverSpec`      next-fit-decreasing cover: fill the current bin, close it as soon as it reaches `B`,
                        discard the last, unfinished bin;
  * `twoThirdsSpec`     Csirik–Frenk–Labbé–Zhang, "simple algorithm": open a bin with the largest remaining
                        item, add the smallest remaining items until the bin is covered;
  * `threeQuartersSpec` Csirik–Frenk–Labbé–Zhang, "improved simple algorithm": three classes.

  Section "PROOFS" relates the models of `Prtpy/Model/Simple.lean` to them.
-/
import PrtpyProofs.Fit
import PrtpyProofs.Part
import PrtpyProofs.Cover

open Prtpy
namespace Prtpy.Textbook

variable {α : Type}

/-! # SPECIFICATIONS -/

/-! ### 1. round-robin -/

/-- the elements of `l` whose position `j` (counted from `0`) satisfies `j % k = i`, in their order -/
def everyKth (k i : Nat) (l : List α) : List α :=
  (l.zipIdx.filter (fun p => p.2 % k = i)).map (·.1)

/-- Round-robin: sort by non-increasing value (stable); item number `j` goes to bin `j % k`. -/
def rrSpec (v : α → Nat) (k : Nat) (items : List α) : List (List α) :=
  (List.range k).map (fun i => everyKth k i (sortDesc v items))

/-! ### 2. first fit -/

/-- Put `x` into the first bin whose load plus `v x` is at most `B`; if there is none, open a new bin
    (at the end). -/
def ffInsert (v : α → Nat) (B : Nat) (x : α) : List (List α) → List (List α)
  | [] => [[x]]
  | bin :: bins => if binSum v bin + v x ≤ B then (bin ++ [x]) :: bins else bin :: ffInsert v B x bins

/-- First fit: start with no bins, insert the items one by one in the given order. -/
def ffSpec (v : α → Nat) (B : Nat) (items : List α) : List (List α) :=
  items.foldl (fun bins x => ffInsert v B x bins) []

/-- First fit decreasing: first fit on the items sorted by non-increasing value. -/
def ffdSpec (v : α → Nat) (B : Nat) (items : List α) : List (List α) :=
  ffSpec v B (sortDesc v items)

/-! ### runs of a non-deterministic rule -/

/-- `Run step b xs b'`: starting from `b`, the items `xs` are placed one after the other, every placement being
    allowed by `step`; the result is `b'`. -/
inductive Run (step : Bins α → α → Bins α → Prop) : Bins α → List α → Bins α → Prop
  | nil (b : Bins α) : Run step b [] b
  | cons {b b₁ b' : Bins α} {x : α} {xs : List α} :
      step b x b₁ → Run step b₁ xs b' → Run step b (x :: xs) b'

/-! ### 3. LPT (greedy number partitioning) -/

/-- `x` is put into *a* bin whose sum is minimum (any one of them). -/
def LPTStep (v : α → Nat) (b : Bins α) (x : α) (b' : Bins α) : Prop :=
  ∃ i, ∃ h : i < b.sums.length, (∀ s ∈ b.sums, b.sums[i] ≤ s) ∧ b' = b.add v x i

/-- An LPT run: the items are processed in *some* order of non-increasing value, starting from `k` empty bins,
    and each item goes to *a* bin of currently minimum sum.  Ties (between equal items, between equally
    loaded bins) are left open. -/
def IsLPTRun (v : α → Nat) (k : Nat) (items : List α) (b : Bins α) : Prop :=
  ∃ order : List α, order.Perm items ∧ order.Pairwise (fun a c => v c ≤ v a) ∧
    Run (LPTStep v) (Bins.new k) order b

/-! ### 4. best fit -/

/-- `x` is put into *a* bin of maximum sum among those in which it fits; if it fits nowhere, a new bin
    containing just `x` is opened at the end. -/
def BestFitStep (v : α → Nat) (B : Nat) (b : Bins α) (x : α) (b' : Bins α) : Prop :=
  (∃ i, ∃ h : i < b.sums.length, b.sums[i] + v x ≤ B ∧
      (∀ s ∈ b.sums, s + v x ≤ B → s ≤ b.sums[i]) ∧ b' = b.add v x i) ∨
  ((∀ s ∈ b.sums, ¬ s + v x ≤ B) ∧ b' = ⟨b.sums ++ [v x], b.lists ++ [[x]]⟩)

/-- A best-fit run: start with no bins, the items arrive in the given order. -/
def IsBestFitRun (v : α → Nat) (B : Nat) (items : List α) (b : Bins α) : Prop :=
  Run (BestFitStep v B) ⟨[], []⟩ items b

/-! ### 5. next-fit-decreasing cover -/

/-- Next-fit cover of the list `xs`, the bin being filled is `cur`:
    keep filling `cur`; as soon as its sum reaches `B`, it is finished and a new bin is started.
    What is in `cur` when the items run out is discarded. -/
def nfCover (v : α → Nat) (B : Nat) : List α → List α → List (List α)
  | _, [] => []
  | cur, x :: xs =>
    if B ≤ binSum v (cur ++ [x]) then (cur ++ [x]) :: nfCover v B [] xs else nfCover v B (cur ++ [x]) xs

/-- Next-fit-decreasing cover. -/
def nfdCoverSpec (v : α → Nat) (B : Nat) (items : List α) : List (List α) :=
  nfCover v B [] (sortDesc v items)

/-! ### 6. the two algorithms of Csirik, Frenk, Labbé and Zhang -/

/-- Add items from `smallestFirst` (in that order) to the bin `cur` until its sum reaches `B` or the items run
    out; returns the bin and the items that were not used. -/
def fillUp (v : α → Nat) (B : Nat) : List α → List α → List α × List α
  | cur, [] => (cur, [])
  | cur, y :: ys => if binSum v cur < B then fillUp v B (cur ++ [y]) ys else (cur, y :: ys)

theorem fillUp_length (v : α → Nat) (B : Nat) : ∀ (ys cur : List α),
    (fillUp v B cur ys).2.length ≤ ys.length
  | [], _ => Nat.le_refl _
  | y :: ys, cur => by
    simp only [fillUp]
    split
    · exact Nat.le_trans (fillUp_length v B ys _) (Nat.le_succ _)
    · exact Nat.le_refl _

/-- Bidirectional filling of a list sorted by non-increasing value:
    open a bin with the largest remaining item (the head), add the smallest remaining items (from the other
    end) until the bin is covered; a bin that cannot be covered (the items ran out) is discarded. -/
def biFill (v : α → Nat) (B : Nat) : List α → List (List α)
  | [] => []
  | x :: rest =>
    let r := fillUp v B [x] rest.reverse
    if B ≤ binSum v r.1 then r.1 :: biFill v B r.2.reverse else []
termination_by l => l.length
decreasing_by
  have := fillUp_length v B rest.reverse [x]
  simp only [List.unattach_reverse, List.unattach_attach, List.length_reverse, List.length_cons] at *
  omega

/-- The "simple algorithm" (2/3). -/
def twoThirdsSpec (v : α → Nat) (B : Nat) (items : List α) : List (List α) :=
  biFill v B (sortDesc v items)

/-- How a bin is opened in the 3/4 algorithm: with the largest big item or with the two largest medium items
    (one, if only one is left), whichever weighs more — the big item on a tie.
    Returns (the opening items, the remaining big items, the remaining medium items). -/
def opening (v : α → Nat) : List α → List α → List α × List α × List α
  | x :: X, Y => if binSum v (Y.take 2) ≤ v x then ([x], X, Y) else (Y.take 2, x :: X, Y.drop 2)
  | [], Y => (Y.take 2, [], Y.drop 2)

theorem opening_length (v : α → Nat) (X Y : List α) (h : ¬ (X = [] ∧ Y = [])) :
    (opening v X Y).2.1.length + (opening v X Y).2.2.length < X.length + Y.length := by
  cases X with
  | nil =>
    cases Y with
    | nil => exact absurd ⟨rfl, rfl⟩ h
    | cons y Y => simp only [opening, List.length_nil, List.length_drop, List.length_cons]; omega
  | cons x X =>
    simp only [opening]
    split
    · simp only [List.length_cons]; omega
    · rename_i hlt
      cases Y with
      | nil => exact absurd (Nat.zero_le _) hlt
      | cons y Y => simp only [List.length_drop, List.length_cons]; omega

/-- Three-class filling.  `X` (big) and `Y` (medium) are sorted by non-increasing value, `Zasc` (small) by
    non-decreasing value; `cur` is the bin being filled.
    * no small items left: next-fit cover with the big, then the medium items;
    * only small items left: next-fit cover with them, largest first;
    * otherwise: open with `opening`, add the smallest small items until the bin is covered. -/
def threeClass (v : α → Nat) (B : Nat) (cur X Y Zasc : List α) : List (List α) :=
  if Zasc = [] then nfCover v B cur (X ++ Y)
  else if _h : X = [] ∧ Y = [] then nfCover v B cur Zasc.reverse
  else
    let o := opening v X Y
    let r := fillUp v B (cur ++ o.1) Zasc
    if B ≤ binSum v r.1 then r.1 :: threeClass v B [] o.2.1 o.2.2 r.2
    else threeClass v B r.1 o.2.1 o.2.2 r.2
termination_by X.length + Y.length
decreasing_by
  all_goals exact opening_length v X Y _h

/-- The "improved simple algorithm" (3/4): big items have `B ≤ 2·v`, medium items `B ≤ 3·v` and `2·v < B`,
    small items `3·v < B`. -/
def threeQuartersSpec (v : α → Nat) (B : Nat) (items : List α) : List (List α) :=
  let s := sortDesc v items
  threeClass v B []
    (s.filter (fun x => B ≤ 2 * v x))
    (s.filter (fun x => B ≤ 3 * v x ∧ 2 * v x < B))
    (s.filter (fun x => 3 * v x < B)).reverse

/-! # PROOFS -/

/-! ### 1. round-robin -/

/-- `everyKth` with positions counted from `n` -/
def pick (k i n : Nat) (l : List α) : List α :=
  ((l.zipIdx n).filter (fun p => p.2 % k = i)).map (·.1)

theorem pick_nil (k i n : Nat) : pick k i n ([] : List α) = [] := rfl

theorem pick_cons (k i n : Nat) (x : α) (l : List α) :
    pick k i n (x :: l) = if n % k = i then x :: pick k i (n + 1) l else pick k i (n + 1) l := by
  simp only [pick, List.zipIdx_cons, List.filter_cons]
  by_cases h : n % k = i <;> simp [h]

theorem rrLoop_lists (v : α → Nat) (k : Nat) : ∀ (xs : List α) (b : Bins α) (n : Nat),
    (rrLoop v k b (n % k) xs).lists = b.lists.mapIdx (fun j l => l ++ pick k j n xs)
  | [], b, n => by
    apply List.ext_getElem <;> simp [rrLoop, pick_nil]
  | x :: xs, b, n => by
    simp only [rrLoop]
    rw [Nat.mod_add_mod, rrLoop_lists v k xs _ (n + 1)]
    apply List.ext_getElem
    · simp [Bins.add]
    · intro j h₁ h₂
      simp only [List.getElem_mapIdx, Bins.add, List.getElem_modify, pick_cons]
      by_cases h : n % k = j <;> simp [h]

theorem roundrobin_eq_spec (v : α → Nat) (k : Nat) (items : List α) :
    (roundrobin v k items).lists = rrSpec v k items := by
  have := rrLoop_lists v k (sortDesc v items) (Bins.new k) 0
  rw [Nat.zero_mod] at this
  unfold roundrobin
  rw [this]
  apply List.ext_getElem
  · simp [rrSpec, Bins.new]
  · intro j h₁ h₂
    simp [rrSpec, Bins.new, pick, everyKth]

theorem rrLoop_consistent (v : α → Nat) (k : Nat) : ∀ (xs : List α) (b : Bins α) (i : Nat),
    b.Consistent v → (rrLoop v k b i xs).Consistent v
  | [], _, _, h => h
  | x :: xs, b, i, h => rrLoop_consistent v k xs _ _ (Part.add_consistent v b x i h)

/-- the sums are the sums of the textbook bins -/
theorem roundrobin_sums_eq_spec (v : α → Nat) (k : Nat) (items : List α) :
    (roundrobin v k items).sums = (rrSpec v k items).map (binSum v) := by
  rw [← roundrobin_eq_spec]
  exact rrLoop_consistent v k _ _ _ (Part.new_consistent v k)

/-- the doc-test of `roundrobin.py` -/
example : rrSpec id 3 [1, 2, 3, 3, 5, 9, 9] = [[9, 3, 1], [9, 3], [5, 2]] := by decide
example : (roundrobin id 3 [1, 2, 3, 3, 5, 9, 9]).lists = [[9, 3, 1], [9, 3], [5, 2]] :=
  (roundrobin_eq_spec id 3 [1, 2, 3, 3, 5, 9, 9]).trans (by decide)
example : (roundrobin id 3 [1, 2, 3, 3, 5, 9, 9]).sums = [13, 12, 7] :=
  (roundrobin_sums_eq_spec id 3 [1, 2, 3, 3, 5, 9, 9]).trans (by decide)

/-! ### 2. first fit -/

theorem ffInsert_first (v : α → Nat) (B : Nat) (x : α) : ∀ (ls : List (List α)) (i : Nat)
    (h : i < ls.length), binSum v ls[i] + v x ≤ B → (∀ j (hj : j < i), ¬ binSum v ls[j] + v x ≤ B) →
    ffInsert v B x ls = ls.modify i (· ++ [x])
  | [], _, h, _, _ => by simp at h
  | l :: ls, 0, _, hfit, _ => by
    simp only [List.getElem_cons_zero] at hfit
    simp [ffInsert, hfit]
  | l :: ls, i + 1, h, hfit, hno => by
    have h0 := hno 0 (Nat.succ_pos _)
    simp only [List.getElem_cons_zero] at h0
    simp only [ffInsert, if_neg h0, List.modify_succ_cons]
    rw [ffInsert_first v B x ls i (by simpa using h) (by simpa using hfit)]
    intro j hj
    have := hno (j + 1) (by omega)
    simpa using this

theorem ffInsert_none (v : α → Nat) (B : Nat) (x : α) : ∀ (ls : List (List α)),
    (∀ l ∈ ls, ¬ binSum v l + v x ≤ B) → ffInsert v B x ls = ls ++ [[x]]
  | [], _ => rfl
  | l :: ls, h => by
    simp only [ffInsert, if_neg (h l List.mem_cons_self), List.cons_append]
    rw [ffInsert_none v B x ls (fun l' hl' => h l' (List.mem_cons_of_mem _ hl'))]

/-- one step of the model on a consistent bins-array is `ffInsert` -/
theorem ffStep_eq_ffInsert (v : α → Nat) (B : Nat) (ls : List (List α)) (x : α) :
    ffStep v B ⟨ls.map (binSum v), ls⟩ x =
      ⟨(ffInsert v B x ls).map (binSum v), ffInsert v B x ls⟩ := by
  rcases Fit.ffStep_spec' v B ⟨ls.map (binSum v), ls⟩ x with ⟨i, h, hfit, hno, e⟩ | ⟨hno, e⟩
  · rw [e]
    have hi : i < ls.length := by simpa using h
    have e2 : ffInsert v B x ls = ls.modify i (· ++ [x]) := by
      apply ffInsert_first v B x ls i hi
      · simpa using hfit
      · intro j hj
        have := hno j hj
        simpa using this
    rw [e2]
    simp only [Bins.add, Fit.map_modify_binSum]
  · rw [e]
    have e2 : ffInsert v B x ls = ls ++ [[x]] := by
      apply ffInsert_none
      intro l hl
      exact hno _ (List.mem_map_of_mem hl)
    rw [e2, Fit.addEmpty_add v _ x (by simp)]
    simp [binSum, sumL]

theorem ffLoop_eq_foldl (v : α → Nat) (B : Nat) : ∀ (xs : List α) (ls : List (List α)) (b : Bins α),
    ffLoop v B ⟨ls.map (binSum v), ls⟩ xs = .ok b →
    b = ⟨(xs.foldl (fun bins x => ffInsert v B x bins) ls).map (binSum v),
      xs.foldl (fun bins x => ffInsert v B x bins) ls⟩
  | [], ls, b, h => by
    simp only [ffLoop, Except.ok.injEq] at h
    exact h.symm
  | x :: xs, ls, b, h => by
    simp only [ffLoop] at h
    split at h
    · cases h
    · rw [ffStep_eq_ffInsert] at h
      exact ffLoop_eq_foldl v B xs _ b h

/-- First fit (online), the whole result: for a non-empty input the model returns exactly the textbook bins
    (and their sums).  No hypothesis on the sizes is needed: a successful run implies `v x ≤ B` for all items. -/
theorem ffOnline_eq_spec' {v : α → Nat} {B : Nat} {items : List α} {b : Bins α} (hne : items ≠ [])
    (h : ffOnline v B items = .ok b) : b = ⟨(ffSpec v B items).map (binSum v), ffSpec v B items⟩ := by
  cases items with
  | nil => exact absurd rfl hne
  | cons x xs =>
    have hx : v x ≤ B :=
      Fit.gen_ok_all_le (by simpa only [ffOnline, Fit.ffLoop_eq] using h) x List.mem_cons_self
    have := ffLoop_eq_foldl v B (x :: xs) [[]] b h
    rw [this]
    have e : ffInsert v B x [[]] = ffInsert v B x [] := by
      simp [ffInsert, binSum, sumL, hx]
    simp only [ffSpec, List.foldl_cons, e]

/-- **First fit.**  For a non-empty list of items the model returns the textbook bins.
    (The hypothesis `∀ x ∈ items, v x ≤ B` of the task statement is not needed, it follows from `.ok`.) -/
theorem ffOnline_eq_spec {v : α → Nat} {B : Nat} {items : List α} {b : Bins α} (hne : items ≠ [])
    (h : ffOnline v B items = .ok b) : b.lists = ffSpec v B items := by
  rw [ffOnline_eq_spec' hne h]

theorem ffOnline_sums_eq_spec {v : α → Nat} {B : Nat} {items : List α} {b : Bins α} (hne : items ≠ [])
    (h : ffOnline v B items = .ok b) : b.sums = (ffSpec v B items).map (binSum v) := by
  rw [ffOnline_eq_spec' hne h]

/-- The one difference: on the empty input the Python function returns its initial empty bin, the textbook
    rule returns no bin. -/
theorem ffOnline_nil (v : α → Nat) (B : Nat) :
    ffOnline v B ([] : List α) = .ok ⟨[0], [[]]⟩ ∧ ffSpec v B ([] : List α) = [] := ⟨rfl, rfl⟩

/-- the doc-test of `first_fit.online` -/
example : ffSpec id 9 [1, 2, 3, 3, 5, 9, 9] = [[1, 2, 3, 3], [5], [9], [9]] := by decide
example : ∃ b, ffOnline id 9 [1, 2, 3, 3, 5, 9, 9] = .ok b ∧ b.lists = [[1, 2, 3, 3], [5], [9], [9]] :=
  ⟨_, rfl, (ffOnline_eq_spec (v := id) (B := 9) (items := [1, 2, 3, 3, 5, 9, 9]) (by decide) rfl).trans
    (by decide)⟩

theorem sortDesc_ne_nil (v : α → Nat) {items : List α} (h : items ≠ []) : sortDesc v items ≠ [] := by
  intro h0
  have := (Part.sortDesc_perm v items).length_eq
  rw [h0] at this
  exact h (List.length_eq_zero_iff.1 this.symm)

/-- **First fit decreasing.** -/
theorem ffDecreasing_eq_spec {v : α → Nat} {B : Nat} {items : List α} {b : Bins α} (hne : items ≠ [])
    (h : ffDecreasing v B items = .ok b) : b.lists = ffdSpec v B items :=
  ffOnline_eq_spec (sortDesc_ne_nil v hne) h

theorem ffDecreasing_sums_eq_spec {v : α → Nat} {B : Nat} {items : List α} {b : Bins α} (hne : items ≠ [])
    (h : ffDecreasing v B items = .ok b) : b.sums = (ffdSpec v B items).map (binSum v) :=
  ffOnline_sums_eq_spec (sortDesc_ne_nil v hne) h

/-- the doc-test of `first_fit.decreasing` (Wikipedia's non-monotonicity example) -/
example : ffdSpec id 60 [44, 24, 24, 22, 21, 17, 8, 8, 6, 6] = [[44, 8, 8], [24, 24, 6, 6], [22, 21, 17]] := by
  decide
example : ∃ b, ffDecreasing id 60 [44, 24, 24, 22, 21, 17, 8, 8, 6, 6] = .ok b ∧
    b.lists = [[44, 8, 8], [24, 24, 6, 6], [22, 21, 17]] :=
  ⟨_, rfl, (ffDecreasing_eq_spec (v := id) (B := 60) (items := [44, 24, 24, 22, 21, 17, 8, 8, 6, 6])
    (by decide) rfl).trans (by decide)⟩

end Prtpy.Textbook
