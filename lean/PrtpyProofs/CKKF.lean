/-
  PrtpyProofs.CKKF — complete Karmarkar–Karp `optimal` after fix F11 (`Prtpy.ckkF`, Model/CKKF.lean): the
  combinations of two tuples are filtered on their sorted vector of sums (`dedupSums`), with either bins-manager.

  (E) `ckkF_false_eq`                     the sums-only manager is unchanged
  (V) `ckkF_isPartition`                  validity, contents manager
  (S) `ckkF_sums_manager_independent`     the whole vector of sums is the same with either manager
      `ckkF_sums_eq_fuel`, `ckkF_sums_values`, `ckkF_list_dict_sums`   … and for list / dict input (C06 + C07)
  (O) `ckkF_optimal`, `ckkF_real_optimal`, `ckkF_sums_sorted`, `ckkF_ne_nil`, `ckkF_sums_valid`
  (T) `ckkF_fuel_sufficient`, `ckkF_never_fuel`, `ckkF_fuel_mono`
  (N) `ckkF_natural`, `ckkF_sums_names_irrelevant`

  The lemmas are in PrtpyProofs/CKKFAux.lean: the filter as `firsts`, the key lemma `dedupSums_allCombContents`
  (after the filter the contents manager produces exactly the sums of the sums-only manager, in the same order) and
  the lock-step simulation `ckkRunF_ls` between a run on the items and a run on their bare values, whatever the
  managers.  (For the code before F11 both (S) and the list/dict statement are false: PrtpyProofs/CKKDedupe.lean.)
-/
import Prtpy
import PrtpyProofs.Part
import PrtpyProofs.Obj
import PrtpyProofs.Oracle
import PrtpyProofs.Natural
import PrtpyProofs.Natural2
import PrtpyProofs.CKK
import PrtpyProofs.CKKValid
import PrtpyProofs.CKKOpt
import PrtpyProofs.SumsOnly
import PrtpyProofs.Total
import PrtpyProofs.CKKFAux
open Prtpy

namespace Prtpy.CKKF
open Prtpy.SumsOnly (Real)
open Prtpy.Natural Prtpy.Natural2

variable {α β : Type}

/-! ## (E) the sums-only manager is unchanged -/

theorem stepBodyF_false_eq (nm : α → Nat) [BEq α] (h : Heap α) (s : CkkState α) :
    stepBodyF nm false h s = CKKValid.stepBody nm false false true h s := by
  unfold stepBodyF CKKValid.stepBody
  simp only [dedupSums_allComb_false, Bool.true_or, Bool.and_true, if_true]
  rfl

theorem ckkStepF_false_eq (nm : α → Nat) [BEq α] (k : Nat) (s : CkkState α) :
    ckkStepF nm k false s = ckkStep nm k false false true s := by
  rw [ckkStepF_eq, CKKValid.ckkStep_eq]
  simp only [stepBodyF_false_eq]
  rfl

theorem ckkRunF_false_eq (nm : α → Nat) [BEq α] (k : Nat) (fuel : Nat) (s : CkkState α) :
    ckkRunF nm k false fuel s = ckkRun nm k false false true fuel s := by
  induction fuel generalizing s with
  | zero => rfl
  | succ n ih => simp only [ckkRunF, ckkRun, ckkStepF_false_eq, ih]

/-- **(E)** with the sums-only manager the fixed `optimal` is the old one -/
theorem ckkF_false_eq (v nm : α → Nat) [BEq α] (k : Nat) (items : List α) (fuel : Nat) :
    ckkF v nm k false items fuel = ckk v nm k false items fuel := by
  simp only [ckkF, ckk, ckkRunF_false_eq]
  rfl

example : ckkF id id 3 false [4, 5, 6, 7, 8] 100 = ckk id id 3 false [4, 5, 6, 7, 8] 100 :=
  ckkF_false_eq id id 3 _ 100
example : ckkF id id 3 false [4, 5, 6, 7, 8] 100 = .ok ⟨[8, 11, 11], [[], [], []]⟩ := by rfl

/-! ## (V) validity -/

/-- **(V)** C01 for the fixed `optimal`, contents manager -/
theorem ckkF_isPartition {v nm : α → Nat} [BEq α] {k : Nat} {items : List α} {fuel : Nat} {b : Bins α}
    (hk : 0 < k) (h : ckkF v nm k true items fuel = .ok b) : IsPartition v items k b := by
  unfold ckkF at h
  have hinv := ckkRunF_inv nm k true (CKKValid.SInv v k items) (fun s hs => ckkStepF_inv hs) fuel _
    (CKKValid.ckkInit_inv hk items .negInf)
  simp only [] at h
  split at h
  · cases h
  · split at h
    · cases h
    · rename_i b0 hb0
      cases h
      exact CKKValid.sortAsc_isPartition (hinv.bestP b0 hb0).1

example : IsPartition id [4, 5, 6, 7, 8] 3 ⟨[8, 11, 11], [[8], [5, 6], [4, 7]]⟩ :=
  ckkF_isPartition (nm := id) (fuel := 100) (by decide) rfl

/-- the sums-only manager returns the sums of an assignment (from (E) and `CKKValid.ckk_sums_valid`) -/
theorem ckkF_sums_valid {v nm : α → Nat} [BEq α] {k : Nat} {items : List α} {fuel : Nat} {b : Bins α}
    (hk : 0 < k) (h : ckkF v nm k false items fuel = .ok b) :
    ∃ asg, IsAssignment k items.length asg ∧ sumsOf k (items.map v) asg = b.sums := by
  rw [ckkF_false_eq] at h
  exact CKKValid.ckk_sums_valid hk h

/-- the sums come out in ascending order, with either manager -/
theorem ckkF_sums_sorted {v nm : α → Nat} [BEq α] {k : Nat} {c : Bool} {items : List α} {fuel : Nat} {b : Bins α}
    (h : ckkF v nm k c items fuel = .ok b) : b.sums.Pairwise (· ≤ ·) := by
  unfold ckkF at h
  simp only [] at h
  split at h
  · cases h
  · split at h
    · cases h
    · cases h
      exact Part.sortAsc_sums_sorted _

example : ([8, 11, 11] : List Nat).Pairwise (· ≤ ·) :=
  ckkF_sums_sorted (v := id) (nm := id) (k := 3) (c := true) (items := [4, 5, 6, 7, 8]) (fuel := 100)
    (b := ⟨[8, 11, 11], [[8], [5, 6], [4, 7]]⟩) rfl

/-! ## (T) termination -/

/-- the body of an iteration uses up the weight of the popped heap -/
theorem stepBodyF_pot (nm : α → Nat) [BEq α] (contents : Bool) (k : Nat) (h : Heap α) (s : CkkState α)
    (hlen : ∀ e ∈ h, e.bins.sums.length = k) :
    Total.pot k (stepBodyF nm contents h s).stack + 1 ≤ Total.W k h.length + Total.pot k s.stack := by
  have hW := Total.W_pos k h.length
  unfold stepBodyF
  split
  · simp only []
    split
    · split
      · show Total.pot k s.stack + 1 ≤ _; omega
      · show Total.pot k s.stack + 1 ≤ _; omega
    · omega
  · split
    · omega
    · rename_i e1 h1 hp1
      split
      · omega
      · rename_i e2 h2 hp2
        show Total.pot k ((sortDesc topDiffOf _).reverse ++ s.stack) + 1 ≤ _
        rw [Total.pot_append, Total.pot_perm k (List.reverse_perm _), Total.pot_perm k (Part.sortDesc_perm _ _),
          Total.foldl_push_pot]
        have hl1 := Total.hpop_length hp1
        have hl2 := Total.hpop_length hp2
        have hc := Nat.le_trans (dedupSums_length_le _) (Total.allComb_length_le nm contents e1.bins e2.bins)
        rw [hlen e1 (Total.hpop_mem hp1)] at hc
        have e : h.length = (h2.length + 1) + 1 := by omega
        have hWe : Total.W k (h2.length + 1 + 1) = 1 + k.factorial * Total.W k (h2.length + 1) := rfl
        rw [e, hWe]
        have := Nat.mul_le_mul_right (Total.W k (h2.length + 1)) hc
        simp only [Total.pot, Nat.zero_add]
        generalize Total.W k (h2.length + 1) = w at *
        omega

/-- every iteration on a non-empty stack lowers the potential -/
theorem ckkStepF_pot (nm : α → Nat) [BEq α] (k : Nat) (contents : Bool) (s : CkkState α)
    (hl : Total.LenInv k s) (hne : s.stack ≠ []) :
    Total.pot k (ckkStepF nm k contents s).stack + 1 ≤ Total.pot k s.stack := by
  rw [ckkStepF_eq]
  split
  · rename_i hs; exact absurd hs hne
  · rename_i h stack hs
    rw [hs, Total.pot]
    split
    · show Total.pot k stack + 1 ≤ _
      have := Total.W_pos k h.length; omega
    · exact stepBodyF_pot nm contents k h { s with stack := stack }
        (hl h (by rw [hs]; exact List.mem_cons_self))

/-- with fuel above the potential of the stack, the loop runs until `done` -/
theorem ckkRunF_done (nm : α → Nat) [BEq α] (k : Nat) (contents : Bool) (P : CkkState α → Prop)
    (hstep : ∀ s, P s → P (ckkStepF nm k contents s)) (hlen : ∀ s, P s → Total.LenInv k s) :
    ∀ (fuel : Nat) (s : CkkState α), P s → Total.pot k s.stack + 1 ≤ fuel →
      (ckkRunF nm k contents fuel s).done = true := by
  intro fuel
  induction fuel with
  | zero => intro s _ h; omega
  | succ n ih =>
    intro s hs hp
    simp only [ckkRunF]
    split
    · assumption
    · by_cases hne : s.stack = []
      · have : (ckkStepF nm k contents s).done = true := by
          rw [ckkStepF_eq, hne]
        rw [ckkRunF_of_done _ _ _ _ this]; exact this
      · have := ckkStepF_pot nm k contents s (hlen s hs) hne
        exact ih _ (hstep s hs) (by omega)

/-- **the fixed search loop stops** within `Total.ckkFuel k n` iterations, with either manager -/
theorem ckkRunF_init_done (v nm : α → Nat) [BEq α] {k : Nat} (hk : 0 < k) (contents : Bool)
    (items : List α) (best : EInt) {fuel : Nat} (hf : Total.ckkFuel k items.length ≤ fuel) :
    (ckkRunF nm k contents fuel (ckkInit v k items best)).done = true := by
  cases contents with
  | true =>
    have hp := Nat.le_trans (Total.ckkInit_pot v k items best) hf
    exact ckkRunF_done nm k true (CKKValid.SInv v k items) (fun s hs => ckkStepF_inv hs)
      (fun s hs => Total.lenInv_of_sinv hs) fuel _ (CKKValid.ckkInit_inv hk items best) hp
  | false =>
    rw [ckkRunF_false_eq]
    exact Total.ckkRun_init_done v nm hk false false true items best hf

theorem stepBodyF_J (nm : α → Nat) [BEq α] (contents : Bool) (h : Heap α) (s : CkkState α)
    (hne : h ≠ []) (hb : s.best = .negInf) (hd : s.done = false) (hall : ∀ g ∈ s.stack, g ≠ []) :
    Total.J (stepBodyF nm contents h s) := by
  unfold stepBodyF
  split
  · rename_i hlen
    obtain ⟨e, rfl⟩ : ∃ e, h = [e] := by
      match h, hlen with
      | [e], _ => exact ⟨e, rfl⟩
    have hlt : EInt.lt s.best (.fin (-((topDiffOf [e] : Nat) : Int))) = true := by rw [hb]; rfl
    simp only [hlt, if_true]
    left
    split <;> simp [Part.htop_singleton]
  · rename_i hlen
    obtain ⟨e1, h1, hp1, hperm1⟩ := Part.hpop_some h hne
    have hne1 : h1 ≠ [] := by
      rintro rfl
      have := hperm1.length_eq
      simp at this
      simp [this] at hlen
    obtain ⟨e2, h2, hp2, hperm2⟩ := Part.hpop_some h1 hne1
    simp only [hp1, hp2]
    right
    refine ⟨hb, hd, ?_, ?_⟩
    · intro hnil
      have := congrArg List.length hnil
      simp only [List.length_append, List.length_reverse, Part.sortDesc_length, Total.foldl_push_length,
        List.length_nil, Nat.zero_add] at this
      exact dedupSums_ne_nil (Total.allComb_ne_nil nm contents e1.bins e2.bins)
        (List.length_eq_zero_iff.1 (by omega))
    · intro g hg
      simp only [List.mem_append, List.mem_reverse] at hg
      rcases hg with hg | hg
      · rw [(Part.sortDesc_perm _ _).mem_iff] at hg
        rcases CKKValid.foldl_push_mem h2 _ _ g hg with h0 | ⟨nb, _, c, rfl⟩
        · cases h0
        · simp [hpush]
      · exact hall g hg

theorem ckkStepF_J (nm : α → Nat) [BEq α] (k : Nat) (contents : Bool) (s : CkkState α) (h : Total.J s) :
    Total.J (ckkStepF nm k contents s) := by
  rcases h with h | ⟨hb, hd, hne, hall⟩
  · left
    obtain ⟨_, hy⟩ := ckkStepF_cases nm k contents s
    rcases hy with ⟨_, _, h3⟩ | ⟨e, _, _, _, _, h3⟩
    · rw [h3]; exact h
    · rw [h3]; simp
  · rw [ckkStepF_eq]
    split
    · rename_i hs; exact absurd hs hne
    · rename_i h stack hs
      have hnp : CKKValid.prunedB k h s.best = false := by
        rw [hb]; unfold CKKValid.prunedB
        cases ckkBound h k <;> rfl
      rw [hnp]
      simp only [Bool.false_eq_true, if_false]
      exact stepBodyF_J nm contents h { s with stack := stack }
        (hall h (by rw [hs]; exact List.mem_cons_self)) hb hd
        (fun g hg => hall g (by rw [hs]; exact List.mem_cons_of_mem _ hg))

/-- **(T)** `Total.ckkFuel k n = (k! + 1) ^ n + 1` iterations suffice, with either manager -/
theorem ckkF_fuel_sufficient {v nm : α → Nat} [BEq α] {k : Nat} {contents : Bool} {items : List α} {fuel : Nat}
    (hk : 0 < k) (hne : items ≠ []) (hf : Total.ckkFuel k items.length ≤ fuel) :
    ∃ b, ckkF v nm k contents items fuel = .ok b := by
  have hd := ckkRunF_init_done v nm hk contents items .negInf hf
  have hj := ckkRunF_inv nm k contents Total.J (ckkStepF_J nm k contents) fuel _ (Total.ckkInit_J v k hne)
  simp only [ckkF, hd, Bool.not_true, Bool.false_eq_true, if_false]
  rcases hj with hj | ⟨_, hnd, _⟩
  · cases hbp : (ckkRunF nm k contents fuel (ckkInit v k items .negInf)).bestP with
    | none => exact absurd hbp hj
    | some b => exact ⟨_, rfl⟩
  · rw [hd] at hnd; cases hnd

example : ∃ b, ckkF id id 2 true [4, 5, 6, 7, 8] 244 = .ok b :=
  ckkF_fuel_sufficient (by decide) (by decide) (by decide)

theorem ckkF_never_fuel {v nm : α → Nat} [BEq α] {k : Nat} {contents : Bool} {items : List α} {fuel : Nat}
    (hk : 0 < k) (hf : Total.ckkFuel k items.length ≤ fuel) : ckkF v nm k contents items fuel ≠ .error .fuel := by
  have hd := ckkRunF_init_done v nm hk contents items .negInf hf
  simp only [ckkF, hd, Bool.not_true, Bool.false_eq_true, if_false]
  split <;> simp

example : ckkF id id 2 true ([] : List Nat) 2 ≠ .error .fuel := ckkF_never_fuel (by decide) (by decide)

theorem ckkF_done_of_ok {v nm : α → Nat} [BEq α] {k : Nat} {contents : Bool} {items : List α} {fuel : Nat}
    {b : Bins α} (h : ckkF v nm k contents items fuel = .ok b) :
    (ckkRunF nm k contents fuel (ckkInit v k items .negInf)).done = true := by
  simp only [ckkF] at h
  split at h
  · cases h
  · rename_i hnd; simpa using hnd

/-- once `ckkF` has returned `.ok b`, every larger fuel returns the same `b` -/
theorem ckkF_fuel_mono {v nm : α → Nat} [BEq α] {k : Nat} {contents : Bool} {items : List α} {fuel fuel' : Nat}
    {b : Bins α} (h : ckkF v nm k contents items fuel = .ok b) (hf : fuel ≤ fuel') :
    ckkF v nm k contents items fuel' = .ok b := by
  have hd := ckkF_done_of_ok h
  simp only [ckkF] at h ⊢
  rw [ckkRunF_mono nm k contents hf _ hd]
  exact h

example : ckkF id id 3 true [4, 5, 6, 7, 8] 1000 = .ok ⟨[8, 11, 11], [[8], [5, 6], [4, 7]]⟩ :=
  ckkF_fuel_mono (fuel := 100) rfl (by decide)

/-- on an empty input the search never finds an incumbent -/
theorem ckkRunF_empty {v nm : α → Nat} [BEq α] {k : Nat} {contents : Bool} (best : EInt) (fuel : Nat) :
    (ckkRunF nm k contents fuel (ckkInit v k [] best)).bestP = none := by
  refine (ckkRunF_inv nm k contents (fun s => s.bestP = none ∧ ∀ h ∈ s.stack, h = []) ?_ fuel _ ?_).1
  · intro s ⟨hb, hst⟩
    rw [ckkStepF_eq]
    split
    · exact ⟨hb, by simpa using hst⟩
    · rename_i h stack hs
      have hh : h = [] := hst h (by rw [hs]; exact List.mem_cons_self)
      have hrest : ∀ g ∈ stack, g = [] := fun g hg => hst g (by rw [hs]; exact List.mem_cons_of_mem _ hg)
      subst hh
      split
      · exact ⟨hb, hrest⟩
      · exact ⟨hb, hrest⟩
  · exact ⟨rfl, by simp [ckkInit, sortDesc, pushAll]⟩

/-- a successful run had items to work on -/
theorem ckkF_ne_nil {v nm : α → Nat} [BEq α] {k : Nat} {c : Bool} {items : List α} {fuel : Nat} {b : Bins α}
    (h : ckkF v nm k c items fuel = .ok b) : items ≠ [] := by
  rintro rfl
  unfold ckkF at h
  simp only [] at h
  rw [ckkRunF_empty] at h
  split at h <;> cases h

/-! ## (S) the vector of sums depends only on the values: not on the manager, not on the names -/

/-- the invariant of a run with manager `c` -/
def Side (v : α → Nat) (k : Nat) (items : List α) : Bool → CkkState α → Prop
  | true, s => CKKValid.SInv v k items s
  | false, s => BalS s

theorem side_step {v nm : α → Nat} [BEq α] {k : Nat} {items : List α} (c : Bool) {s : CkkState α}
    (h : Side v k items c s) : Side v k items c (ckkStepF nm k c s) := by
  cases c with
  | true => exact ckkStepF_inv h
  | false => exact ckkStepF_balS h

theorem side_good {v nm : α → Nat} [BEq α] [LawfulBEq α] {k : Nat} {items : List α} (c : Bool) {s : CkkState α}
    (h : Side v k items c s) : ∀ g ∈ s.stack, CombGood nm c g := by
  cases c with
  | true => exact fun g hg => combGood_true nm (CKKValid.SInv.stack h g hg)
  | false => exact fun g _ => combGood_false nm g

theorem side_balS {v : α → Nat} {k : Nat} {items : List α} (c : Bool) {s : CkkState α}
    (h : Side v k items c s) : BalS s := by
  cases c with
  | true => exact balS_of_sinv h
  | false => exact h

theorem side_init (v : α → Nat) {k : Nat} (hk : 0 < k) (items : List α) (best : EInt) (c : Bool) :
    Side v k items c (ckkInit v k items best) := by
  cases c with
  | true => exact CKKValid.ckkInit_inv hk items best
  | false => exact ckkInit_balS v hk items best

/-- **the two runs proceed in lock-step** (same fuel): run on the items with manager `c₁`, run on the bare values
    with manager `c₂`; the answers (errors included) have the same sums -/
theorem ckkF_sums_eq_fuel {v nm : α → Nat} [BEq α] [LawfulBEq α] (c₁ c₂ : Bool) {k : Nat} (hk : 0 < k)
    (items : List α) (fuel : Nat) :
    (ckkF v nm k c₁ items fuel).map (·.sums) = (ckkF id id k c₂ (items.map v) fuel).map (·.sums) := by
  rw [ckkF_eq_resultOf, ckkF_eq_resultOf]
  have i₁ := side_init v hk items .negInf c₁
  have i₂ := side_init id hk (items.map v) .negInf c₂
  have hls := ckkRunF_ls (nm := nm) (nm' := id) (k := k) (c := c₁) (c' := c₂)
    (Side v k items c₁) (Side id k (items.map v) c₂) (fun _ h => side_step c₁ h) (fun _ h => side_step c₂ h)
    (fun _ h => side_good c₁ h) (fun _ h => side_good c₂ h) fuel _ _ i₁ i₂ (ckkInit_ls v k items .negInf)
  exact resultOf_ls hls
    (side_balS c₁ (ckkRunF_inv nm k c₁ (Side v k items c₁) (fun _ h => side_step c₁ h) fuel _ i₁))
    (side_balS c₂ (ckkRunF_inv id k c₂ (Side id k (items.map v) c₂) (fun _ h => side_step c₂ h) fuel _ i₂))

/-- the same on one item type: the manager does not matter (same fuel, errors included) -/
theorem ckkF_sums_manager_eq_fuel {v nm : α → Nat} [BEq α] [LawfulBEq α] {k : Nat} (hk : 0 < k)
    (items : List α) (fuel : Nat) :
    (ckkF v nm k true items fuel).map (·.sums) = (ckkF v nm k false items fuel).map (·.sums) :=
  (ckkF_sums_eq_fuel true false hk items fuel).trans (ckkF_sums_eq_fuel false false hk items fuel).symm

theorem map_sums_ok {γ δ : Type} {r₁ : Except Err (Bins γ)} {r₂ : Except Err (Bins δ)} {b₁ : Bins γ} {b₂ : Bins δ}
    (h : r₁.map (·.sums) = r₂.map (·.sums)) (h₁ : r₁ = .ok b₁) (h₂ : r₂ = .ok b₂) : b₁.sums = b₂.sums := by
  subst h₁ h₂
  exact Except.ok.inj h

/-- … and for list / dict input, any managers, any fuels (C06 + C07 together) -/
theorem ckkF_sums_values {v nm : α → Nat} [BEq α] [LawfulBEq α] {c₁ c₂ : Bool} {k : Nat} {items : List α}
    {f₁ f₂ : Nat} {b₁ : Bins α} {b₂ : Bins Nat} (hk : 0 < k)
    (h₁ : ckkF v nm k c₁ items f₁ = .ok b₁) (h₂ : ckkF id id k c₂ (items.map v) f₂ = .ok b₂) :
    b₁.sums = b₂.sums :=
  map_sums_ok (ckkF_sums_eq_fuel c₁ c₂ hk items (max f₁ f₂))
    (ckkF_fuel_mono h₁ (Nat.le_max_left _ _)) (ckkF_fuel_mono h₂ (Nat.le_max_right _ _))

/-- **(S)** C06 for the fixed `optimal`: the *whole vector* of sums is the same with either manager (any fuels) -/
theorem ckkF_sums_manager_independent {v nm : α → Nat} [BEq α] [LawfulBEq α] {k : Nat} {items : List α}
    {f₁ f₂ : Nat} {b₁ b₂ : Bins α} (hk : 0 < k)
    (h₁ : ckkF v nm k true items f₁ = .ok b₁) (h₂ : ckkF v nm k false items f₂ = .ok b₂) : b₁.sums = b₂.sums :=
  map_sums_ok (ckkF_sums_manager_eq_fuel hk items (max f₁ f₂))
    (ckkF_fuel_mono h₁ (Nat.le_max_left _ _)) (ckkF_fuel_mono h₂ (Nat.le_max_right _ _))

/-- **C07 for the fixed `optimal`**: dict input and list input, contents manager -/
theorem ckkF_list_dict_sums {v nm : α → Nat} [BEq α] [LawfulBEq α] {k : Nat} {items : List α}
    {f₁ f₂ : Nat} {b₁ : Bins α} {b₂ : Bins Nat} (hk : 0 < k)
    (h₁ : ckkF v nm k true items f₁ = .ok b₁) (h₂ : ckkF id id k true (items.map v) f₂ = .ok b₂) :
    b₂.sums = b₁.sums :=
  (ckkF_sums_values hk h₁ h₂).symm

theorem pushAll_bal (v : α → Nat) (k : Nat) : ∀ (xs : List α) (h : Heap α) (c : Nat), CKKValid.Bal h →
    CKKValid.Bal (pushAll v k xs h c).1
  | [], _, _, hh => hh
  | x :: xs, h, c, hh => by
    simp only [pushAll]
    exact pushAll_bal v k xs _ _ (CKKValid.hpush_bal c _ hh)

/-- the sums of the sums-only run depend only on the values of the items (no hypothesis at all) -/
theorem ckkF_sums_names_irrelevant (v nm : α → Nat) [BEq α] (k : Nat) (items : List α) (fuel : Nat) :
    (ckkF v nm k false items fuel).map (·.sums) = (ckkF id id k false (items.map v) fuel).map (·.sums) := by
  rw [ckkF_eq_resultOf, ckkF_eq_resultOf]
  have init : ∀ {γ : Type} (w : γ → Nat) (l : List γ), BalS (ckkInit w k l .negInf) := by
    intro γ w l
    refine ⟨?_, fun b hb => by simp [ckkInit] at hb⟩
    intro h hh
    simp only [ckkInit, List.mem_singleton] at hh
    subst hh
    exact pushAll_bal w k _ [] 0 (fun e he => by cases he)
  have hls := ckkRunF_ls (nm := nm) (nm' := id) (k := k) (c := false) (c' := false) BalS BalS
    (fun _ h => ckkStepF_balS h) (fun _ h => ckkStepF_balS h)
    (fun _ _ g _ => combGood_false nm g) (fun _ _ g _ => combGood_false id g) fuel _ _
    (init v items) (init id (items.map v)) (ckkInit_ls v k items .negInf)
  exact resultOf_ls hls (ckkRunF_inv nm k false BalS (fun _ h => ckkStepF_balS h) fuel _ (init v items))
    (ckkRunF_inv id k false BalS (fun _ h => ckkStepF_balS h) fuel _ (init id (items.map v)))

/-! ## (O) optimality -/

/-- **(O)** C02 for the fixed `optimal`, either manager -/
theorem ckkF_optimal {v nm : α → Nat} [BEq α] [LawfulBEq α] {k : Nat} (c : Bool) {items : List α} {fuel : Nat}
    {b : Bins α} (hk : 0 < k) (hne : items ≠ []) (h : ckkF v nm k c items fuel = .ok b) :
    IsOptimalValue .minDiff k (items.map v) (Objective.minDiff.value b.sums false) := by
  cases c with
  | false =>
    rw [ckkF_false_eq] at h
    exact CKKOpt.ckk_sums_optimal hk hne h
  | true =>
    have e := ckkF_sums_manager_eq_fuel (v := v) (nm := nm) hk items fuel
    rw [h] at e
    cases h2 : ckkF v nm k false items fuel with
    | error err => rw [h2] at e; cases e
    | ok b₂ =>
      rw [h2] at e
      have hs : b.sums = b₂.sums := Except.ok.inj e
      rw [ckkF_false_eq] at h2
      rw [hs]
      exact CKKOpt.ckk_sums_optimal hk hne h2

/-- realisable sums of minimum difference (the form `SumsOnly.ckk_real_optimal` has for the old code) -/
theorem ckkF_real_optimal {v nm : α → Nat} [BEq α] [LawfulBEq α] {k : Nat} (c : Bool) {items : List α}
    {fuel : Nat} {b : Bins α} (hk : 0 < k) (hne : items ≠ []) (h : ckkF v nm k c items fuel = .ok b) :
    Real v items k b.sums ∧ IsOptimalValue .minDiff k (items.map v) (Objective.minDiff.value b.sums false) := by
  refine ⟨?_, ckkF_optimal c hk hne h⟩
  cases c with
  | true => exact SumsOnly.real_of_partition (ckkF_isPartition hk h)
  | false =>
    obtain ⟨asg, h1, h2⟩ := ckkF_sums_valid hk h
    exact SumsOnly.real_of_assignment h1 h2

/-! ## (N) naturality -/

theorem dedupSumsAux_natural (f : α → β) (l : List (Bins α)) (seen : List (List Nat)) :
    dedupSumsAux (l.map (Bins.mapItems f)) seen = (dedupSumsAux l seen).map (Bins.mapItems f) := by
  induction l generalizing seen with
  | nil => rfl
  | cons b rest ih =>
    simp only [List.map_cons, dedupSumsAux]
    by_cases hc : seen.contains (sortAsc id b.sums) = true
    · have hc' : seen.contains (sortAsc id (Bins.mapItems f b).sums) = true := hc
      rw [if_pos hc, if_pos hc']; exact ih seen
    · have hc' : ¬ seen.contains (sortAsc id (Bins.mapItems f b).sums) = true := hc
      rw [if_neg hc, if_neg hc', List.map_cons, ih]; rfl

theorem dedupSums_natural (f : α → β) (l : List (Bins α)) :
    dedupSums (l.map (Bins.mapItems f)) = (dedupSums l).map (Bins.mapItems f) :=
  dedupSumsAux_natural f l []

section Nat
variable (f : α → β) [BEq α] [LawfulBEq α] [BEq β] [LawfulBEq β] (hinj : ∀ a b, f a = f b → a = b)
  (nmα : α → Nat) (nmβ : β → Nat) (hnm : ∀ a, nmβ (f a) = nmα a)
include hinj hnm

theorem ckkStepF_natural (k : Nat) (contents : Bool) (s : CkkState α) :
    ckkStepF nmβ k contents (mapCkkState f s) = mapCkkState f (ckkStepF nmα k contents s) := by
  obtain ⟨stack, cnt, best, bestP, yields, done⟩ := s
  match stack with
  | [] => rfl
  | h :: stack =>
    rw [show mapCkkState f ⟨h :: stack, cnt, best, bestP, yields, done⟩
        = ⟨h.map (mapEntry f) :: stack.map (List.map (mapEntry f)), cnt, best, bestP.map (Bins.mapItems f),
           yields.map (Bins.mapItems f), done⟩ from rfl]
    simp only [ckkStepF, ckkBound_natural, List.length_map, topDiffOf_natural, htop_natural, hpop_natural]
    refine ite_map _ rfl (ite_map _ (ite_map _ ?_ rfl) ?_)
    · cases htop h with
      | none => exact ite_map _ rfl rfl
      | some e => exact ite_map _ rfl rfl
    · cases hpop h with
      | none => rfl
      | some p₁ =>
        obtain ⟨e₁, h₁⟩ := p₁
        simp only [Option.map_some, hpop_natural]
        cases hpop h₁ with
        | none => rfl
        | some p₂ =>
          obtain ⟨e₂, h₂⟩ := p₂
          simp only [Option.map_some]
          have e1 : (mapEntry f e₁).bins = e₁.bins.mapItems f := rfl
          have e2 : (mapEntry f e₂).bins = e₂.bins.mapItems f := rfl
          have hpc := pushClones_natural f h₂ (dedupSums (allComb nmα contents e₁.bins e₂.bins)) [] cnt
          simp only [List.map_nil] at hpc
          simp only [e1, e2, allComb_natural f hinj nmα nmβ hnm, dedupSums_natural, hpc,
            sortDesc_map (List.map (mapEntry f)) topDiffOf topDiffOf (topDiffOf_natural f)]
          simp only [mapCkkState, List.map_append, List.map_reverse]

theorem ckkRunF_natural (k : Nat) (contents : Bool) (fuel : Nat) (s : CkkState α) :
    ckkRunF nmβ k contents fuel (mapCkkState f s) = mapCkkState f (ckkRunF nmα k contents fuel s) := by
  induction fuel generalizing s with
  | zero => rfl
  | succ fuel ih =>
    rw [ckkRunF, ckkRunF]
    refine ite_map _ rfl ?_
    rw [ckkStepF_natural f hinj nmα nmβ hnm, ih]

end Nat

/-- **(N)** the fixed `optimal` is natural for injective renamings that preserve values and name keys
    (same statement as `Natural2.ckk_natural`) -/
theorem ckkF_natural (f : α → β) [BEq α] [LawfulBEq α] [BEq β] [LawfulBEq β] (hinj : ∀ a b, f a = f b → a = b)
    (nmα : α → Nat) (nmβ : β → Nat) (hnm : ∀ a, nmβ (f a) = nmα a)
    (vα : α → Nat) (vβ : β → Nat) (hf : ∀ a, vβ (f a) = vα a)
    (k : Nat) (contents : Bool) (items : List α) (fuel : Nat) :
    ckkF vβ nmβ k contents (items.map f) fuel = (ckkF vα nmα k contents items fuel).map (Bins.mapItems f) := by
  simp only [ckkF, ckkInit_natural f vα vβ hf, ckkRunF_natural f hinj nmα nmβ hnm]
  generalize ckkRunF nmα k contents fuel (ckkInit vα k items .negInf) = s
  obtain ⟨stack, cnt, best, bestP, yields, done⟩ := s
  simp only [mapCkkState]
  cases done with
  | false => rfl
  | true =>
    cases bestP with
    | none => rfl
    | some b => simp only [Bool.not_true, Bool.false_eq_true, if_false, Option.map_some, ← mapItems_sortAsc]; rfl

/-! ## non-vacuity: the inputs on which the code before F11 disagrees (PrtpyProofs/CKKDedupe.lean) -/

/-- the list `[5, 4, 2, 2, 2, 2, 2, 1]` (items = values) -/
def exVals : List Nat := [5, 4, 2, 2, 2, 2, 2, 1]
/-- the same values as a dict `(name, value)` -/
def exItems : List (Nat × Nat) := [(0, 5), (1, 4), (2, 2), (3, 2), (4, 2), (5, 2), (6, 2), (7, 1)]

set_option maxRecDepth 100000 in
theorem ex_list_contents :
    ckkF id id 4 true exVals 200 = .ok ⟨[4, 5, 5, 6], [[4], [1, 2, 2], [5], [2, 2, 2]]⟩ := by rfl
set_option maxRecDepth 100000 in
theorem ex_list_sums : ckkF id id 4 false exVals 200 = .ok ⟨[4, 5, 5, 6], [[], [], [], []]⟩ := by rfl
set_option maxRecDepth 100000 in
theorem ex_dict_contents :
    ckkF Prod.snd Prod.fst 4 true exItems 200 =
      .ok ⟨[4, 5, 5, 6], [[(1, 4)], [(3, 2), (4, 2), (7, 1)], [(0, 5)], [(2, 2), (5, 2), (6, 2)]]⟩ := by rfl

/-- (S) on the list input: before F11 the two managers returned `[4,4,6,6]` and `[4,5,5,6]` -/
example : (⟨[4, 5, 5, 6], [[4], [1, 2, 2], [5], [2, 2, 2]]⟩ : Bins Nat).sums
    = (⟨[4, 5, 5, 6], [[], [], [], []]⟩ : Bins Nat).sums :=
  ckkF_sums_manager_independent (by decide) ex_list_contents ex_list_sums

/-- list / dict: before F11 `[4,4,6,6]` against `[4,5,5,6]` -/
example : (⟨[4, 5, 5, 6], [[4], [1, 2, 2], [5], [2, 2, 2]]⟩ : Bins Nat).sums
    = (⟨[4, 5, 5, 6], [[(1, 4)], [(3, 2), (4, 2), (7, 1)], [(0, 5)], [(2, 2), (5, 2), (6, 2)]]⟩ :
        Bins (Nat × Nat)).sums :=
  ckkF_list_dict_sums (by decide) ex_dict_contents ex_list_contents

example : (ckkF Prod.snd Prod.fst 4 true exItems 200).map (·.sums) = (ckkF id id 4 false exVals 200).map (·.sums) :=
  ckkF_sums_eq_fuel true false (by decide) exItems 200

example : (ckkF Prod.snd Prod.fst 4 true exItems 200).map (·.sums)
    = (ckkF Prod.snd Prod.fst 4 false exItems 200).map (·.sums) :=
  ckkF_sums_manager_eq_fuel (by decide) exItems 200

example : (⟨[4, 5, 5, 6], [[(1, 4)], [(3, 2), (4, 2), (7, 1)], [(0, 5)], [(2, 2), (5, 2), (6, 2)]]⟩ :
      Bins (Nat × Nat)).sums = (⟨[4, 5, 5, 6], [[], [], [], []]⟩ : Bins Nat).sums :=
  ckkF_sums_values (by decide) ex_dict_contents ex_list_sums

example : IsOptimalValue .minDiff 4 (exVals.map id) (Objective.minDiff.value [4, 5, 5, 6] false) :=
  ckkF_optimal true (by decide) (by decide) ex_list_contents

example : Real id exVals 4 [4, 5, 5, 6] ∧
    IsOptimalValue .minDiff 4 (exVals.map id) (Objective.minDiff.value [4, 5, 5, 6] false) :=
  ckkF_real_optimal true (by decide) (by decide) ex_list_contents

example : exVals ≠ [] := ckkF_ne_nil ex_list_sums

example : ∃ asg, IsAssignment 4 exVals.length asg ∧ sumsOf 4 (exVals.map id) asg = [4, 5, 5, 6] :=
  ckkF_sums_valid (by decide) ex_list_sums

example : (ckkF Prod.snd Prod.fst 4 false exItems 200).map (·.sums)
    = (ckkF id id 4 false (exItems.map Prod.snd) 200).map (·.sums) :=
  ckkF_sums_names_irrelevant Prod.snd Prod.fst 4 exItems 200

/-- (N): the example of `Natural2.ckk_natural` -/
example : ckkF Prod.fst (fun p => p.2.toNat) 3 true (exNames.map entry) 1000
    = (ckkF exVal Char.toNat 3 true exNames 1000).map (Bins.mapItems entry) :=
  ckkF_natural entry (fun _ _ h => congrArg Prod.snd h) Char.toNat (fun p => p.2.toNat) (fun _ => rfl)
    exVal Prod.fst (fun _ => rfl) 3 true exNames 1000

end Prtpy.CKKF

/-
Axiom audit (output of `#print axioms` observed with `lake env lean`):

#print axioms Prtpy.CKKF.ckkF_false_eq
  'Prtpy.CKKF.ckkF_false_eq' depends on axioms: [propext, Classical.choice, Quot.sound]
#print axioms Prtpy.CKKF.ckkF_isPartition
  'Prtpy.CKKF.ckkF_isPartition' depends on axioms: [propext, Classical.choice, Quot.sound]
#print axioms Prtpy.CKKF.ckkF_sums_valid
  'Prtpy.CKKF.ckkF_sums_valid' depends on axioms: [propext, Classical.choice, Quot.sound]
#print axioms Prtpy.CKKF.ckkF_sums_sorted
  'Prtpy.CKKF.ckkF_sums_sorted' depends on axioms: [propext, Quot.sound]
#print axioms Prtpy.CKKF.ckkF_fuel_sufficient
  'Prtpy.CKKF.ckkF_fuel_sufficient' depends on axioms: [propext, Classical.choice, Quot.sound]
#print axioms Prtpy.CKKF.ckkF_never_fuel
  'Prtpy.CKKF.ckkF_never_fuel' depends on axioms: [propext, Classical.choice, Quot.sound]
#print axioms Prtpy.CKKF.ckkF_fuel_mono
  'Prtpy.CKKF.ckkF_fuel_mono' depends on axioms: [propext]
#print axioms Prtpy.CKKF.ckkF_ne_nil
  'Prtpy.CKKF.ckkF_ne_nil' depends on axioms: [propext, Quot.sound]
#print axioms Prtpy.CKKF.ckkF_sums_eq_fuel
  'Prtpy.CKKF.ckkF_sums_eq_fuel' depends on axioms: [propext, Classical.choice, Quot.sound]
#print axioms Prtpy.CKKF.ckkF_sums_manager_eq_fuel
  'Prtpy.CKKF.ckkF_sums_manager_eq_fuel' depends on axioms: [propext, Classical.choice, Quot.sound]
#print axioms Prtpy.CKKF.ckkF_sums_manager_independent
  'Prtpy.CKKF.ckkF_sums_manager_independent' depends on axioms: [propext, Classical.choice, Quot.sound]
#print axioms Prtpy.CKKF.ckkF_sums_values
  'Prtpy.CKKF.ckkF_sums_values' depends on axioms: [propext, Classical.choice, Quot.sound]
#print axioms Prtpy.CKKF.ckkF_list_dict_sums
  'Prtpy.CKKF.ckkF_list_dict_sums' depends on axioms: [propext, Classical.choice, Quot.sound]
#print axioms Prtpy.CKKF.ckkF_sums_names_irrelevant
  'Prtpy.CKKF.ckkF_sums_names_irrelevant' depends on axioms: [propext, Classical.choice, Quot.sound]
#print axioms Prtpy.CKKF.ckkF_optimal
  'Prtpy.CKKF.ckkF_optimal' depends on axioms: [propext, Classical.choice, Quot.sound]
#print axioms Prtpy.CKKF.ckkF_real_optimal
  'Prtpy.CKKF.ckkF_real_optimal' depends on axioms: [propext, Classical.choice, Quot.sound]
#print axioms Prtpy.CKKF.ckkF_natural
  'Prtpy.CKKF.ckkF_natural' depends on axioms: [propext, Quot.sound]

Test that preceded the proofs (native executable, all multisets of at most 7 values in 0..5, k = 1..5, fuels 3, 40 and
10^6, names in reversed order): `(ckkF … true items).map sums`, `(ckkF … false items).map sums`, the same two on the
bare values, and `(ckk … false items).map sums` agree in all 25 740 cases, errors included.
-/
