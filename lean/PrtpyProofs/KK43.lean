/-
  PrtpyProofs.KK43 — the worst-case ratio of the Karmarkar–Karp largest differencing method (`kk`):

      largest sum of KK  ≤  (4/3 − 1/(3k)) · optimal largest sum        (`kk_four_thirds`)

  (upper bound of Michiels, Korst, Aarts, van Leeuwen, J. Comb. Optim. 2007; for `k = 2` the 7/6 bound of
  Fischetti and Martello 1987: `kk_two_seven_sixths`).  Together with `LPT43.greedy_four_thirds` this is
  property C08 for `greedy` and `kk`.

  The argument (found for this formalisation; it does not follow the paper)
  -------------------------------------------------------------------------
  Let `T` be a feasible capacity (e.g. the optimum), `D` the final spread (largest − smallest sum), `C` the
  final largest sum.
  * (i)  `kk_critical`: `k·C ≤ total + (k−1)·x` for every `x ≥ D` (averaging); `kk_critical_item` picks for
         `x` the least item value that is at least `D` (the *critical item*).
  * (ii) `kk_four_thirds_small`: if `3·D ≤ T` the bound follows as for LPT.
  * (iii) `kk_large_dichotomy`: **`3·D ≤ T` or `C ≤ T`**.  Call an item *large* if it exceeds `T/3`, *small*
         otherwise.  The heap invariant `Psi` distinguishes four situations:
         - `AllSmall`: every difference on the heap is at most `T/3` (absorbing; ends with `3·D ≤ T`);
         - phase A (`PA`): no small single has been popped yet.  All compound tuples consist of large items,
           have sums `≤ T`, a tuple with an empty bin has at most one item per bin, and any two tuples are
           related by `Rel`: compound tuples dominate singles, a full tuple dominates a partial one, two full
           tuples are comparable, two partial compound tuples consist of items of a single value.  These
           relations are maintained because the two popped entries have the largest differences and the
           difference of a partial tuple is its largest item (`pure_rel`); they make the counting argument of
           LPT (`LPT43.large_fits`) applicable to the position-wise union (`kf_core`, `pure_fits`).
         - phase B (`PhB`): the second popped entry was a small single.  From then on at most one entry (the
           *lineage*) has a difference above `T/3`; it is popped every time and absorbs the other entries in
           turn: small singles and (at most one, by counting) full tuple `Z` of large items with spread
           `≤ T/3`.  Small singles never raise the largest sum.  The sums of the lineage are related by `RS`
           to the tuple `g` it was at the end of phase A (above `min + T/3` the two sum vectors agree), and
           `lemmaB` shows that the largest sum of `lineage ⊕ Z` is a sum of `g ⊕ Z`, which is `≤ T` by the
           phase-A argument — unless the spread drops to `≤ T/3` (`AllSmall`).
         - phase C (`PhC`): only small singles are left; the largest sum stays `≤ T`.
  * (iv) `kk_four_thirds`: `3·D ≤ T` gives the bound by (ii); `C ≤ T` gives it trivially.  (`k = 1`: `D = 0`.)
  In particular `kk_optimal_of_large_spread`: if the final spread exceeds a third of the optimum, KK is optimal.

  The proof works with the values of the items (`kk id k vals`, transferred by `Natural.kk_values`) and uses
  of the heap discipline only that the popped entry has a largest difference (`hpop_max`); ties are harmless.
-/
import Mathlib.Tactic.Linarith
import Prtpy
import PrtpyProofs.KK43Aux
import PrtpyProofs.Natural
open Prtpy

namespace Prtpy.KK43

/-! ## 8. The invariant of the differencing process -/

instance : DecidablePred Compound := fun b => inferInstanceAs (Decidable (2 ≤ (items b).length))

/-- the key of a heap entry is the spread of its tuple -/
def DInv (e : HEntry Nat) : Prop := e.diff = gapOf e.bins

def Base (k : Nat) (H : Heap Nat) : Prop := ∀ e ∈ H, WF k e.bins ∧ DInv e

/-- the tuples of a heap -/
def bl (H : Heap Nat) : List (Bins Nat) := H.map (·.bins)

/-- every difference is at most `T / 3` (absorbing) -/
def AllSmall (T : Nat) (H : Heap Nat) : Prop := ∀ e ∈ H, 3 * e.diff ≤ T

/-- phase B: one entry `e` (the lineage) has a difference above `T / 3`; it has absorbed small singles only
    and is related by `RS` to the tuple `g` of large items it was when the first small single was popped;
    the other entries are full tuples of large items (`Zs`) and small singles (`tin`), all of difference at
    most `T / 3`. -/
def PhB (k T : Nat) (H : Heap Nat) : Prop :=
  ∃ e g Zs tin, H.Perm (e :: (Zs ++ tin)) ∧ T < 3 * e.diff ∧ RS (T / 3) g.sums e.bins.sums ∧
    PA k T (g :: bl Zs) ∧ AllLarge T g ∧ (∀ z ∈ Zs, 3 * z.diff ≤ T ∧ Compound z.bins) ∧
    (∀ t ∈ tin, 3 * t.diff ≤ T ∧ ¬ Compound t.bins)

/-- phase C: the lineage has absorbed all tuples of large items, stays within `T`; only small singles are
    left -/
def PhC (T : Nat) (H : Heap Nat) : Prop :=
  ∃ e tin, H.Perm (e :: tin) ∧ T < 3 * e.diff ∧ Fits T e.bins ∧ ∀ t ∈ tin, 3 * t.diff ≤ T ∧ ¬ Compound t.bins

def Psi (k T : Nat) (H : Heap Nat) : Prop :=
  Base k H ∧ (AllSmall T H ∨ PA k T (bl H) ∨ PhB k T H ∨ PhC T H)

theorem bl_perm {H H' : Heap Nat} (h : H.Perm H') : (bl H).Perm (bl H') := h.map _

theorem psi_perm {k T : Nat} {H H' : Heap Nat} (hp : H.Perm H') (h : Psi k T H) : Psi k T H' := by
  obtain ⟨hb, h⟩ := h
  refine ⟨fun e he => hb e (hp.mem_iff.2 he), ?_⟩
  rcases h with h | h | h | h
  · exact Or.inl fun e he => h e (hp.mem_iff.2 he)
  · exact Or.inr (Or.inl (pa_perm (bl_perm hp) h))
  · obtain ⟨e, g, Zs, tin, h1, h2⟩ := h
    exact Or.inr (Or.inr (Or.inl ⟨e, g, Zs, tin, hp.symm.trans h1, h2⟩))
  · obtain ⟨e, tin, h1, h2⟩ := h
    exact Or.inr (Or.inr (Or.inr ⟨e, tin, hp.symm.trans h1, h2⟩))

/-- the popped entry of a heap with exactly one large difference -/
theorem pop_lineage {T : Nat} {H H1 rest : Heap Nat} {e e1 : HEntry Nat} (hp : H.Perm (e :: rest))
    (he : T < 3 * e.diff) (hr : ∀ r ∈ rest, 3 * r.diff ≤ T) (hp1 : H.Perm (e1 :: H1))
    (hm1 : ∀ x ∈ H, x.diff ≤ e1.diff) : e1 = e ∧ H1.Perm rest := by
  have h1 := hm1 e (hp.mem_iff.2 List.mem_cons_self)
  have h2 : e1 ∈ e :: rest := hp.mem_iff.1 (hp1.mem_iff.2 List.mem_cons_self)
  have h3 : e1 = e := by
    rcases List.mem_cons.1 h2 with h | h
    · exact h
    · have := hr e1 h; omega
  subst h3
  exact ⟨rfl, (hp1.symm.trans hp).cons_inv⟩

theorem length_le_flatten_of_mem {β : Type} {L : List (List β)} {l : List β} (h : l ∈ L) :
    l.length ≤ L.flatten.length := by
  obtain ⟨L1, L2, rfl⟩ := List.append_of_mem h
  simp only [List.flatten_append, List.flatten_cons, List.length_append]
  omega

/-- everything we need to know about a single -/
theorem single_facts {k : Nat} (hk : 2 ≤ k) {b : Bins Nat} (h : WF k b) (hc : ¬ Compound b) :
    ∃ x, items b = [x] ∧ gapOf b = x ∧ Le1 b ∧ ¬ Full b := by
  obtain ⟨x, hx⟩ := single_items h hc
  have hl : Le1 b := by
    intro l hl
    have := length_le_flatten_of_mem hl
    unfold items at hx
    rw [hx] at this
    simpa using this
  have hnf := single_nonfull hk h hc
  exact ⟨x, hx, gapOf_single h hl hnf hx, hl, hnf⟩

section Step
variable {k T : Nat} {H H1 H2 : Heap Nat} {e1 e2 en : HEntry Nat}

/-- the entry pushed after combining `e1` and `e2` -/
def IsNew (e1 e2 en : HEntry Nat) : Prop :=
  en.bins = (kkCombine e1.bins e2.bins).sortAsc ∧ en.diff = gapOf (kkCombine e1.bins e2.bins).sortAsc

theorem step_base (hb : Base k H) (hp1 : H.Perm (e1 :: H1)) (hp2 : H1.Perm (e2 :: H2)) (hn : IsNew e1 e2 en) :
    Base k (en :: H2) := by
  have m1 : e1 ∈ H := hp1.mem_iff.2 List.mem_cons_self
  have m2 : e2 ∈ H := hp1.mem_iff.2 (List.mem_cons_of_mem _ (hp2.mem_iff.2 List.mem_cons_self))
  intro e he
  rcases List.mem_cons.1 he with rfl | he
  · refine ⟨by rw [hn.1]; exact push_wf (hb e1 m1).1 (hb e2 m2).1, ?_⟩
    unfold DInv; rw [hn.2, hn.1]
  · exact hb e (hp1.mem_iff.2 (List.mem_cons_of_mem _ (hp2.mem_iff.2 (List.mem_cons_of_mem _ he))))

theorem new_small (hb : Base k H) (hp1 : H.Perm (e1 :: H1)) (hp2 : H1.Perm (e2 :: H2)) (hn : IsNew e1 e2 en)
    (h1 : 3 * e1.diff ≤ T) (h2 : 3 * e2.diff ≤ T) : 3 * en.diff ≤ T := by
  have m1 : e1 ∈ H := hp1.mem_iff.2 List.mem_cons_self
  have m2 : e2 ∈ H := hp1.mem_iff.2 (List.mem_cons_of_mem _ (hp2.mem_iff.2 List.mem_cons_self))
  have := comb_gap (M := T / 3) (hb e1 m1).1 (hb e2 m2).1 (by rw [← (hb e1 m1).2]; omega)
    (by rw [← (hb e2 m2).2]; omega)
  rw [hn.2]; omega

theorem step_small (hb : Base k H) (hs : AllSmall T H) (hp1 : H.Perm (e1 :: H1)) (hp2 : H1.Perm (e2 :: H2))
    (hn : IsNew e1 e2 en) : AllSmall T (en :: H2) := by
  have m1 : e1 ∈ H := hp1.mem_iff.2 List.mem_cons_self
  have m2 : e2 ∈ H := hp1.mem_iff.2 (List.mem_cons_of_mem _ (hp2.mem_iff.2 List.mem_cons_self))
  intro e he
  rcases List.mem_cons.1 he with rfl | he
  · exact new_small hb hp1 hp2 hn (hs e1 m1) (hs e2 m2)
  · exact hs e (hp1.mem_iff.2 (List.mem_cons_of_mem _ (hp2.mem_iff.2 (List.mem_cons_of_mem _ he))))


theorem step_C (hk : 2 ≤ k) (hb : Base k H) (hc : PhC T H) (hp1 : H.Perm (e1 :: H1))
    (hm1 : ∀ x ∈ H, x.diff ≤ e1.diff) (hp2 : H1.Perm (e2 :: H2)) (hn : IsNew e1 e2 en) :
    AllSmall T (en :: H2) ∨ PhC T (en :: H2) := by
  obtain ⟨e, tin, q1, q2, q3, q4⟩ := hc
  obtain ⟨rfl, q5⟩ := pop_lineage q1 q2 (fun r hr => (q4 r hr).1) hp1 hm1
  have m1 : e1 ∈ H := hp1.mem_iff.2 List.mem_cons_self
  have m2' : e2 ∈ H1 := hp2.mem_iff.2 List.mem_cons_self
  have m2 : e2 ∈ H := hp1.mem_iff.2 (List.mem_cons_of_mem _ m2')
  have hH2 : ∀ x ∈ H2, 3 * x.diff ≤ T ∧ ¬ Compound x.bins := fun x hx =>
    q4 x (q5.mem_iff.1 (hp2.mem_iff.2 (List.mem_cons_of_mem _ hx)))
  obtain ⟨x, hx, gx, _, _⟩ := single_facts hk (hb e2 m2).1 (q4 e2 (q5.mem_iff.1 m2')).2
  have hfit : Fits T en.bins := by
    rw [hn.1]
    refine fits_push (hb e1 m1).1 (hb e2 m2).1 (fits_absorb_single (hb e1 m1).1 (hb e2 m2).1 hx ?_ q3)
    rw [← gx, ← (hb e2 m2).2, ← (hb e1 m1).2]
    exact hm1 e2 m2
  by_cases hen : 3 * en.diff ≤ T
  · left
    intro y hy
    rcases List.mem_cons.1 hy with rfl | hy
    · exact hen
    · exact (hH2 y hy).1
  · right
    exact ⟨en, H2, List.Perm.refl _, by omega, hfit, hH2⟩


theorem step_B (hk : 2 ≤ k) (hb : Base k H) (hB : PhB k T H) (hp1 : H.Perm (e1 :: H1))
    (hm1 : ∀ x ∈ H, x.diff ≤ e1.diff) (hp2 : H1.Perm (e2 :: H2)) (hn : IsNew e1 e2 en) :
    AllSmall T (en :: H2) ∨ PhB k T (en :: H2) ∨ PhC T (en :: H2) := by
  obtain ⟨e, g, Zs, tin, q1, q2, q3, q4, q5, q6, q7⟩ := hB
  have hrest : ∀ r ∈ Zs ++ tin, 3 * r.diff ≤ T := by
    intro r hr
    rcases List.mem_append.1 hr with hr | hr
    · exact (q6 r hr).1
    · exact (q7 r hr).1
  obtain ⟨rfl, p5⟩ := pop_lineage q1 q2 hrest hp1 hm1
  have m1 : e1 ∈ H := hp1.mem_iff.2 List.mem_cons_self
  have m2' : e2 ∈ H1 := hp2.mem_iff.2 List.mem_cons_self
  have m2 : e2 ∈ H := hp1.mem_iff.2 (List.mem_cons_of_mem _ m2')
  have memH : ∀ x ∈ Zs ++ tin, x ∈ H := fun x hx =>
    hp1.mem_iff.2 (List.mem_cons_of_mem _ (p5.mem_iff.2 hx))
  have hH2 : ∀ x ∈ H2, x ∈ Zs ++ tin := fun x hx =>
    p5.mem_iff.1 (hp2.mem_iff.2 (List.mem_cons_of_mem _ hx))
  by_cases hen : 3 * en.diff ≤ T
  · left
    intro y hy
    rcases List.mem_cons.1 hy with rfl | hy
    · exact hen
    · exact hrest y (hH2 y hy)
  · right
    have hen' : T < 3 * en.diff := by omega
    rcases List.mem_append.1 (p5.mem_iff.1 m2') with hz | ht
    · -- a full tuple of large items is absorbed
      right
      obtain ⟨z1, z2, rfl⟩ := List.append_of_mem hz
      have hperm : (bl (z1 ++ e2 :: z2)).Perm (e2.bins :: bl (z1 ++ z2)) := by
        unfold bl
        simp only [List.map_append, List.map_cons]
        exact List.perm_middle
      have q4' : PA k T (g :: e2.bins :: bl (z1 ++ z2)) := pa_perm (List.Perm.cons g hperm) q4
      obtain ⟨a1, a2, a3⟩ := q4'
      have hg := (a1 g (by simp)).1
      have hbT := a1 e2.bins (by simp)
      have hcb := (q6 e2 hz).2
      have hLb := hbT.2 hcb
      rw [List.pairwise_cons] at a2
      simp only [List.flatMap_cons] at a3
      have hfullb : Full e2.bins := full_of_small_gap hbT.1 hLb (by
        rw [← (hb e2 m2).2]; exact (q6 e2 hz).1)
      have hpure : Fits T (kkCombine g e2.bins) :=
        pure_fits hk hg hbT.1 q5 hLb (a2.1 e2.bins (by simp)) (rest := (bl (z1 ++ z2)).flatMap items)
          (by rw [List.append_assoc]; exact a3)
      have hfit : Fits T en.bins := by
        rw [hn.1]
        refine fits_push (hb e1 m1).1 (hb e2 m2).1
          (fits_lemmaB (σ := T / 3) hg.wf (hb e1 m1).1 (hb e2 m2).1 q3 ?_ ?_ hpure)
        · rw [← (hb e2 m2).2]; have := (q6 e2 hz).1; omega
        · rw [← hn.2]; omega
      -- no other tuple of large items can be left
      have hnone : ∀ z' ∈ z1 ++ z2, False := by
        intro z' hz'
        have hzZ : z' ∈ z1 ++ e2 :: z2 := by
          rcases List.mem_append.1 hz' with h | h
          · exact List.mem_append_left _ h
          · exact List.mem_append_right _ (List.mem_cons_of_mem _ h)
        have hz'T := a1 z'.bins (by
          right; right; exact List.mem_map_of_mem hz')
        have hcz := (q6 z' hzZ).2
        have hLz := hz'T.2 hcz
        have mz : z' ∈ H := memH z' (List.mem_append_left _ hzZ)
        have hfullz : Full z'.bins := full_of_small_gap hz'T.1 hLz (by
          rw [← (hb z' mz).2]; exact (q6 z' hzZ).1)
        obtain ⟨rest, hrest'⟩ := flatMap_items_split (R := bl (z1 ++ z2)) (s := z'.bins)
          (List.mem_map_of_mem hz')
        have hpk : Packable T k (items g ++ items e2.bins ++ items z'.bins ++ rest) := by
          refine LPT43.packable_perm ?_ a3
          rw [List.append_assoc, List.append_assoc]
          exact List.Perm.append_left _ (List.Perm.append_left _ hrest')
        have hcount := count_large hpk (by
          intro x hx
          rcases List.mem_append.1 hx with hx | hx
          · rcases List.mem_append.1 hx with hx | hx
            · exact q5 x hx
            · exact hLb x hx
          · exact hLz x hx)
        have l1 : 0 < (items g).length := List.length_pos_iff.2 hg.wf.ne
        have l2 := full_length hbT.1.wf hfullb
        have l3 := full_length hz'T.1.wf hfullz
        simp only [List.length_append] at hcount
        omega
      have hz12 : z1 ++ z2 = [] := List.eq_nil_iff_forall_not_mem.2 (fun z' hz' => hnone z' hz')
      have hH2tin : H2.Perm tin := by
        have h1 : (e2 :: H2).Perm (e2 :: ((z1 ++ z2) ++ tin)) := by
          refine hp2.symm.trans (p5.trans ?_)
          rw [List.append_assoc, List.append_assoc]
          exact List.perm_middle
        have := h1.cons_inv
        rwa [hz12, List.nil_append] at this
      exact ⟨en, H2, List.Perm.refl _, hen', hfit, fun t ht => q7 t (hH2tin.mem_iff.1 ht)⟩
    · -- a small single is absorbed
      left
      obtain ⟨t1, t2, rfl⟩ := List.append_of_mem ht
      obtain ⟨x, hx, gx, _, _⟩ := single_facts hk (hb e2 m2).1 (q7 e2 ht).2
      have hxs : x ≤ T / 3 := by
        have := (q7 e2 ht).1
        rw [(hb e2 m2).2, gx] at this
        omega
      have hH2' : H2.Perm (Zs ++ (t1 ++ t2)) := by
        have h1 : (e2 :: H2).Perm (e2 :: (Zs ++ (t1 ++ t2))) := by
          refine hp2.symm.trans (p5.trans ?_)
          rw [← List.append_assoc, ← List.append_assoc]
          exact List.perm_middle
        exact h1.cons_inv
      refine ⟨en, g, Zs, t1 ++ t2, List.Perm.cons en hH2', hen', ?_, q4, q5, q6, ?_⟩
      · rw [hn.1]
        exact rs_absorb_single (hb e1 m1).1 (hb e2 m2).1 hx hxs q3
      · intro t ht'
        apply q7
        rcases List.mem_append.1 ht' with h | h
        · exact List.mem_append_left _ h
        · exact List.mem_append_right _ (List.mem_cons_of_mem _ h)


theorem not_large_single {T x : Nat} {b : Bins Nat} (hx : items b = [x]) (h : ¬ AllLarge T b) : 3 * x ≤ T := by
  apply Nat.le_of_not_lt
  intro hlt
  apply h
  intro y hy
  rw [hx] at hy
  simp at hy
  rw [hy]; exact hlt

theorem step_A (hk : 2 ≤ k) (hb : Base k H) (hA : PA k T (bl H)) (hp1 : H.Perm (e1 :: H1))
    (hm1 : ∀ x ∈ H, x.diff ≤ e1.diff) (hp2 : H1.Perm (e2 :: H2)) (hm2 : ∀ x ∈ H1, x.diff ≤ e2.diff)
    (hn : IsNew e1 e2 en) :
    AllSmall T (en :: H2) ∨ PA k T (bl (en :: H2)) ∨ PhB k T (en :: H2) := by
  have hperm : H.Perm (e1 :: e2 :: H2) := hp1.trans (List.Perm.cons e1 hp2)
  have hA' : PA k T (e1.bins :: e2.bins :: bl H2) := pa_perm (bl_perm hperm) hA
  have m1 : e1 ∈ H := hp1.mem_iff.2 List.mem_cons_self
  have m2' : e2 ∈ H1 := hp2.mem_iff.2 List.mem_cons_self
  have m2 : e2 ∈ H := hp1.mem_iff.2 (List.mem_cons_of_mem _ m2')
  have memH1 : ∀ x ∈ H2, x ∈ H1 := fun x hx => hp2.mem_iff.2 (List.mem_cons_of_mem _ hx)
  have memH : ∀ x ∈ H2, x ∈ H := fun x hx => hp1.mem_iff.2 (List.mem_cons_of_mem _ (memH1 x hx))
  have hTa := hA'.1 e1.bins (by simp)
  have hTb := hA'.1 e2.bins (by simp)
  by_cases hLa : AllLarge T e1.bins
  · by_cases hLb : AllLarge T e2.bins
    · right; left
      have := pure_step hk hA' hLa hLb (by
        intro s hs
        obtain ⟨x, hx, rfl⟩ := List.mem_map.1 hs
        rw [← (hb x (memH x hx)).2, ← (hb e1 m1).2, ← (hb e2 m2).2]
        exact ⟨hm1 x (memH x hx), hm2 x (memH1 x hx)⟩)
      unfold bl
      rw [List.map_cons, hn.1]
      exact this
    · -- the second popped entry is a small single: the large-item phase ends
      have hcb : ¬ Compound e2.bins := fun h => hLb (hTb.2 h)
      obtain ⟨x, hx, gx, _, _⟩ := single_facts hk (hb e2 m2).1 hcb
      have hx3 := not_large_single hx hLb
      have hd2 : e2.diff = x := by rw [(hb e2 m2).2, gx]
      have hsmall : ∀ y ∈ H2, 3 * y.diff ≤ T := fun y hy => by
        have := hm2 y (memH1 y hy); omega
      by_cases hen : 3 * en.diff ≤ T
      · left
        intro y hy
        rcases List.mem_cons.1 hy with rfl | hy
        · exact hen
        · exact hsmall y hy
      · right; right
        refine ⟨en, e1.bins, H2.filter (fun e => decide (Compound e.bins)),
          H2.filter (fun e => !decide (Compound e.bins)),
          List.Perm.cons en (List.filter_append_perm _ H2).symm, by omega, ?_, ?_, hLa, ?_, ?_⟩
        · rw [hn.1]
          exact rs_absorb_single (hb e1 m1).1 (hb e2 m2).1 hx (by omega) (rs_refl _ _)
        · have hp : (bl H2).Perm (bl (H2.filter (fun e => decide (Compound e.bins))) ++
              bl (H2.filter (fun e => !decide (Compound e.bins)))) := by
            unfold bl
            rw [← List.map_append]
            exact (List.filter_append_perm _ H2).symm.map _
          have hp' : (e1.bins :: e2.bins :: bl H2).Perm
              ((e1.bins :: bl (H2.filter (fun e => decide (Compound e.bins)))) ++
                (e2.bins :: bl (H2.filter (fun e => !decide (Compound e.bins))))) := by
            rw [List.cons_append]
            refine List.Perm.cons _ ?_
            exact (List.Perm.cons _ hp).trans List.perm_middle.symm
          exact pa_append_left (pa_perm hp' hA')
        · intro z hz
          obtain ⟨h1, h2⟩ := List.mem_filter.1 hz
          exact ⟨hsmall z h1, of_decide_eq_true h2⟩
        · intro t ht
          obtain ⟨h1, h2⟩ := List.mem_filter.1 ht
          refine ⟨hsmall t h1, ?_⟩
          intro hc
          simp [hc] at h2
  · -- the first popped entry is a small single: every difference is small
    left
    have hca : ¬ Compound e1.bins := fun h => hLa (hTa.2 h)
    obtain ⟨x, hx, gx, _, _⟩ := single_facts hk (hb e1 m1).1 hca
    have hx3 := not_large_single hx hLa
    have hd1 : e1.diff = x := by rw [(hb e1 m1).2, gx]
    exact step_small hb (fun y hy => by have := hm1 y hy; omega) hp1 hp2 hn

/-- **One iteration of the differencing loop keeps the invariant.** -/
theorem step_psi (hk : 2 ≤ k) (h : Psi k T H) (hp1 : H.Perm (e1 :: H1))
    (hm1 : ∀ x ∈ H, x.diff ≤ e1.diff) (hp2 : H1.Perm (e2 :: H2)) (hm2 : ∀ x ∈ H1, x.diff ≤ e2.diff)
    (hn : IsNew e1 e2 en) : Psi k T (en :: H2) := by
  obtain ⟨hb, h⟩ := h
  refine ⟨step_base hb hp1 hp2 hn, ?_⟩
  rcases h with h | h | h | h
  · exact Or.inl (step_small hb h hp1 hp2 hn)
  · rcases step_A hk hb h hp1 hm1 hp2 hm2 hn with h | h | h
    · exact Or.inl h
    · exact Or.inr (Or.inl h)
    · exact Or.inr (Or.inr (Or.inl h))
  · rcases step_B hk hb h hp1 hm1 hp2 hn with h | h | h
    · exact Or.inl h
    · exact Or.inr (Or.inr (Or.inl h))
    · exact Or.inr (Or.inr (Or.inr h))
  · rcases step_C hk hb h hp1 hm1 hp2 hn with h | h
    · exact Or.inl h
    · exact Or.inr (Or.inr (Or.inr h))

end Step


/-! ## 9. The loop, the initial heap, the final tuple -/

theorem kkLoop_psi {k T : Nat} (hk : 2 ≤ k) (n : Nat) (h : Heap Nat) (c : Nat)
    (hlen : h.length = n + 1) (hΨ : Psi k T h) :
    Psi k T (kkLoop n h c) ∧ (kkLoop n h c).length = 1 := by
  induction n generalizing h c with
  | zero => exact ⟨hΨ, hlen⟩
  | succ n ih =>
    have hne : h ≠ [] := by rintro rfl; simp at hlen
    obtain ⟨e1, h1, hp1, hperm1⟩ := Part.hpop_some h hne
    have hlen1 : h1.length = n + 1 := by have := hperm1.length_eq; simp at this; omega
    have hne1 : h1 ≠ [] := by rintro rfl; simp at hlen1
    obtain ⟨e2, h2, hp2, hperm2⟩ := Part.hpop_some h1 hne1
    have hlen2 : h2.length = n := by have := hperm2.length_eq; simp at this; omega
    simp only [kkLoop, hp1, hp2]
    have m1 : e1 ∈ h := hperm1.mem_iff.2 List.mem_cons_self
    have m2 : e2 ∈ h := hperm1.mem_iff.2 (List.mem_cons_of_mem _ (hperm2.mem_iff.2 List.mem_cons_self))
    have hnew : IsNew e1 e2 ⟨lastD (kkCombine e1.bins e2.bins).sortAsc.sums 0 -
        (kkCombine e1.bins e2.bins).sortAsc.sums.headD 0, c, (kkCombine e1.bins e2.bins).sortAsc⟩ :=
      ⟨rfl, push_diff (hΨ.1 e1 m1).1 (hΨ.1 e2 m2).1⟩
    have hstep := step_psi hk hΨ hperm1 (hpop_max hp1) hperm2 (hpop_max hp2) hnew
    refine ih _ _ (by simp [hpush, hlen2]) (psi_perm ?_ hstep)
    simp only [hpush]
    exact (List.perm_append_singleton _ _).symm

theorem sumL_le_flatten {L : List (List Nat)} {l : List Nat} (h : l ∈ L) : sumL l ≤ sumL L.flatten := by
  rw [LPT43.sumL_flatten]
  exact LPT43.le_sumL_of_mem (List.mem_map_of_mem h)

/-- what `pushAll` puts on the heap for one item -/
theorem single_entry {k T : Nat} (hk : 0 < k) {x : Nat} (hx : x ≤ T) :
    WF k (single id k x).sortAsc ∧ items (single id k x).sortAsc = [x] ∧ Fits T (single id k x).sortAsc := by
  obtain ⟨h1, h2⟩ := Part.single_preInv id (k := k) (M := x) hk x (Nat.le_refl _)
  obtain ⟨⟨g1, g2, _⟩, g4⟩ := Part.sortAsc_entryInv id h1
  have hl := Part.consistent_length id h1.2.1
  have hit : items (single id k x).sortAsc = [x] :=
    List.perm_singleton.1 ((Part.sortAsc_flat_perm _ hl).trans h2)
  have hwf : WF k (single id k x).sortAsc :=
    ⟨g1, (consistent_iff _).1 g2, g4, by rw [hit]; simp⟩
  refine ⟨hwf, hit, ?_⟩
  intro s hs
  rw [hwf.cons] at hs
  obtain ⟨l, hl', rfl⟩ := List.mem_map.1 hs
  have := sumL_le_flatten hl'
  unfold items at hit
  rw [hit] at this
  simp [sumL] at this
  omega

/-- the invariant of the initial phase: only singles -/
def Init (k T : Nat) (H : Heap Nat) : Prop :=
  ∀ e ∈ H, WF k e.bins ∧ DInv e ∧ ¬ Compound e.bins ∧ Fits T e.bins

theorem pushAll_init {k T : Nat} (hk : 0 < k) (xs : List Nat) (h : Heap Nat) (c : Nat) (done : List Nat)
    (hx : ∀ x ∈ xs, x ≤ T) (hi : Init k T h) (hp : (h.flatMap fun e => items e.bins).Perm done) :
    Init k T (pushAll id k xs h c).1 ∧
      ((pushAll id k xs h c).1.flatMap fun e => items e.bins).Perm (done ++ xs) ∧
      (pushAll id k xs h c).1.length = h.length + xs.length := by
  induction xs generalizing h c done with
  | nil => exact ⟨hi, by simpa [pushAll] using hp, by simp [pushAll]⟩
  | cons x xs ih =>
    simp only [pushAll]
    obtain ⟨w1, w2, w3⟩ := single_entry (k := k) (T := T) hk (hx x List.mem_cons_self)
    have hi' : Init k T (hpush h c (single id k x)).1 := by
      intro e he
      simp only [hpush, List.mem_append, List.mem_singleton] at he
      rcases he with he | rfl
      · exact hi e he
      · refine ⟨w1, ?_, ?_, w3⟩
        · unfold DInv gapOf
          rw [Obj.lastD_eq_maxL w1.sorted, Obj.headD_eq_minL w1.sorted]
        · unfold Compound; rw [w2]; simp
    have hp' : ((hpush h c (single id k x)).1.flatMap fun e => items e.bins).Perm (done ++ [x]) := by
      simp only [hpush, List.flatMap_append, List.flatMap_cons, List.flatMap_nil, List.append_nil, w2]
      exact hp.append_right _
    obtain ⟨i1, i2, i3⟩ := ih (hpush h c (single id k x)).1 (hpush h c (single id k x)).2 (done ++ [x])
      (fun y hy => hx y (List.mem_cons_of_mem _ hy)) hi' hp'
    refine ⟨i1, by simpa using i2, ?_⟩
    rw [i3]; simp [hpush]; omega

theorem init_psi {k T : Nat} (hk : 2 ≤ k) {H : Heap Nat} {vals : List Nat} (hi : Init k T H)
    (hp : (H.flatMap fun e => items e.bins).Perm vals) (hf : Packable T k vals) : Psi k T H := by
  refine ⟨fun e he => ⟨(hi e he).1, (hi e he).2.1⟩, Or.inr (Or.inl ⟨?_, ?_, ?_⟩)⟩
  · intro t ht
    obtain ⟨e, he, rfl⟩ := List.mem_map.1 ht
    obtain ⟨h1, _, h3, h4⟩ := hi e he
    obtain ⟨_, _, _, hl, _⟩ := single_facts hk h1 h3
    exact ⟨⟨h1, h4, fun _ => hl⟩, fun hc => absurd hc h3⟩
  · apply List.pairwise_of_forall_mem_list
    intro s hs t ht
    obtain ⟨e, he, rfl⟩ := List.mem_map.1 hs
    obtain ⟨e', he', rfl⟩ := List.mem_map.1 ht
    have c1 := (hi e he).2.2.1
    have c2 := (hi e' he').2.2.1
    exact ⟨fun h _ => absurd h c1, fun _ h => absurd h c2, fun h _ => absurd h c1⟩
  · unfold bl
    rw [List.flatMap_map]
    exact LPT43.packable_perm hp.symm hf

/-- at the end: the spread is at most `T / 3`, or the largest sum is at most `T` -/
theorem psi_final {k T : Nat} {e : HEntry Nat} (h : Psi k T [e]) :
    3 * gapOf e.bins ≤ T ∨ maxL e.bins.sums ≤ T := by
  obtain ⟨hb, h⟩ := h
  have hd := (hb e (by simp)).2
  rcases h with h | h | h | h
  · left; rw [← hd]; exact h e (by simp)
  · right
    exact fits_iff_maxL.1 (h.1 e.bins (by simp [bl])).1.fits
  · right
    obtain ⟨e', g, Zs, tin, q1, q2, q3, q4, _⟩ := h
    have hl := q1.length_eq
    simp only [List.length_cons, List.length_nil, List.length_append] at hl
    have hz : Zs ++ tin = [] := List.length_eq_zero_iff.1 (by rw [List.length_append]; omega)
    rw [hz] at q1
    have he : e' = e := by
      have := q1.mem_iff.2 (List.mem_cons_self)
      simpa using this
    subst he
    have hgf := (q4.1 g (by simp)).1.fits
    refine Nat.le_trans (rs_top q3 ?_) (fits_iff_maxL.1 hgf)
    unfold DInv gapOf at hd
    omega
  · right
    obtain ⟨e', tin, q1, _, q3, _⟩ := h
    have hl := q1.length_eq
    simp only [List.length_cons, List.length_nil] at hl
    have hz : tin = [] := List.length_eq_zero_iff.1 (by omega)
    rw [hz] at q1
    have he : e' = e := by
      have := q1.mem_iff.2 (List.mem_cons_self)
      simpa using this
    subst he
    exact fits_iff_maxL.1 q3

/-- **(iii) The large-item case, as a dichotomy.**  Let `T` be a feasible capacity for the values `vals` on
    `k ≥ 2` bins.  The tuple returned by the differencing method has spread at most `T / 3`, or its largest
    sum is at most `T`. -/
theorem kk_dichotomy {k T : Nat} (hk : 2 ≤ k) {vals : List Nat} {b : Bins Nat}
    (hf : Packable T k vals) (hb : kk id k vals = .ok b) :
    3 * (maxL b.sums - minL b.sums) ≤ T ∨ maxL b.sums ≤ T := by
  have hne : vals ≠ [] := by
    rintro rfl
    simp [kk, sortDesc, pushAll, kkLoop, htop, hbest] at hb
  have hsp := Part.sortDesc_perm id vals
  obtain ⟨p1, p2, p3⟩ := pushAll_init (k := k) (T := T) (by omega) (sortDesc id vals) [] 0 []
    (fun x hx => LPT43.packable_item_le hf (hsp.mem_iff.1 hx)) (by intro e he; cases he) (by simp)
  have hΨ := init_psi hk p1 (by simpa using p2.trans hsp) hf
  have hlen : (sortDesc id vals).length = ((sortDesc id vals).length - 1) + 1 := by
    have : vals.length ≠ 0 := by simpa using hne
    rw [Part.sortDesc_length]; omega
  obtain ⟨q1, q2⟩ := kkLoop_psi hk ((sortDesc id vals).length - 1) _
    (pushAll id k (sortDesc id vals) [] 0).2 (by rw [p3]; simpa using hlen) hΨ
  simp only [kk] at hb
  match hfin : kkLoop ((sortDesc id vals).length - 1) (pushAll id k (sortDesc id vals) [] 0).1
      (pushAll id k (sortDesc id vals) [] 0).2, q2 with
  | [e], _ =>
    rw [hfin] at q1 hb
    simp only [Part.htop_singleton, Except.ok.injEq] at hb
    subst hb
    exact psi_final q1


/-! ## 10. The theorems -/

section Main
variable {α : Type}

/-- what we know about the output of `kk` -/
theorem kk_facts {v : α → Nat} {k : Nat} {items : List α} (hk : 0 < k) (hne : items ≠ []) {b : Bins α}
    (hb : kk v k items = .ok b) :
    IsPartition v items k b ∧ sumL b.sums = binSum v items ∧ b.sums.length = k ∧ b.sums ≠ [] ∧
      kk id k (items.map v) = .ok (b.mapItems v) := by
  obtain ⟨b', h1, h2⟩ := Part.kk_isPartition (v := v) (k := k) (items := items) hk hne
  rw [hb] at h1; cases h1
  obtain ⟨h3, h4⟩ := Part.isPartition_sumL h2
  refine ⟨h2, h3, h4, ?_, ?_⟩
  · intro e; rw [e] at h4; simp at h4; omega
  · rw [Natural.kk_values, hb]; rfl

/-- **(i) The critical inequality of the differencing method.**  For every bound `x` on the final spread
    (largest minus smallest sum): `k · C ≤ total + (k − 1) · x`, written without subtraction. -/
theorem kk_critical {v : α → Nat} {k : Nat} {items : List α} (hk : 0 < k) (hne : items ≠ []) {b : Bins α}
    (hb : kk v k items = .ok b) {x : Nat} (hx : maxL b.sums - minL b.sums ≤ x) :
    k * maxL b.sums + x ≤ binSum v items + k * x := by
  obtain ⟨_, h3, h4, h5, _⟩ := kk_facts hk hne hb
  rw [Part.gap_le_iff] at hx
  have := Part.length_mul_le_sumL' b.sums (maxL b.sums) x
    (fun a ha => hx _ (Part.maxL_mem h5) a ha) (Part.maxL_mem h5)
  rw [h3, h4] at this
  exact this

/-- the same with `x` the value of an item: the *critical item* is a least item whose value is at least the
    final spread (it exists because the spread is at most the largest item, `Part.kk_gap`) -/
theorem kk_critical_item {v : α → Nat} {k : Nat} {items : List α} (hk : 0 < k) (hne : items ≠ []) {b : Bins α}
    (hb : kk v k items = .ok b) :
    ∃ y ∈ items, maxL b.sums - minL b.sums ≤ v y ∧
      (∀ z ∈ items, maxL b.sums - minL b.sums ≤ v z → v y ≤ v z) ∧
      k * maxL b.sums + v y ≤ binSum v items + k * v y := by
  have hg := Part.kk_gap hk hne hb
  have hvne : items.map v ≠ [] := by simpa using hne
  obtain ⟨y0, hy0, e0⟩ := List.mem_map.1 (Part.maxL_mem hvne)
  have hne' : ((items.filter fun z => decide (maxL b.sums - minL b.sums ≤ v z)).map v) ≠ [] := by
    intro e
    have : v y0 ∈ (items.filter fun z => decide (maxL b.sums - minL b.sums ≤ v z)).map v :=
      List.mem_map_of_mem (List.mem_filter.2 ⟨hy0, by rw [e0]; simpa using hg⟩)
    rw [e] at this; cases this
  obtain ⟨y, hy, ey⟩ := List.mem_map.1 (Part.minL_mem hne')
  obtain ⟨hy1, hy2⟩ := List.mem_filter.1 hy
  have hy2' : maxL b.sums - minL b.sums ≤ v y := by simpa using hy2
  refine ⟨y, hy1, hy2', ?_, kk_critical hk hne hb hy2'⟩
  intro z hz hz'
  rw [ey]
  exact Part.minL_le (List.mem_map_of_mem (List.mem_filter.2 ⟨hz, by simpa using hz'⟩))

/-- **(ii) The bound when the final spread is at most a third of the optimum** (e.g. when a critical item is
    at most a third of the optimum). -/
theorem kk_four_thirds_small {v : α → Nat} {k : Nat} {items : List α} (hk : 0 < k) (hne : items ≠ [])
    {b : Bins α} {opt : Int} (hb : kk v k items = .ok b)
    (hopt : IsOptimalValue .minLargest k (items.map v) opt) {x : Nat}
    (hx : maxL b.sums - minL b.sums ≤ x) (hx3 : 3 * (x : Int) ≤ opt) :
    3 * k * (maxL b.sums : Int) ≤ (4 * k - 1) * opt := by
  obtain ⟨T, hT, hp⟩ := LPT43.packable_of_opt hopt
  apply LPT43.cast_bound hT
  exact LPT43.arith_small hk (kk_critical hk hne hb hx) (LPT43.packable_sum hp) (by omega)

/-- **(iii) The large case.**  For `k ≥ 2` bins and every feasible capacity `T`: the final spread is at most
    `T / 3`, or the largest sum is at most `T`. -/
theorem kk_large_dichotomy {v : α → Nat} {k T : Nat} {items : List α} (hk : 2 ≤ k) (hne : items ≠ [])
    {b : Bins α} (hb : kk v k items = .ok b) (hf : Packable T k (items.map v)) :
    3 * (maxL b.sums - minL b.sums) ≤ T ∨ maxL b.sums ≤ T := by
  obtain ⟨_, _, _, _, h5⟩ := kk_facts (by omega) hne hb
  exact kk_dichotomy hk hf h5

/-- in particular: if the final spread exceeds a third of the optimum, the differencing method is optimal -/
theorem kk_optimal_of_large_spread {v : α → Nat} {k : Nat} {items : List α} (hk : 2 ≤ k) (hne : items ≠ [])
    {b : Bins α} {opt : Int} (hb : kk v k items = .ok b)
    (hopt : IsOptimalValue .minLargest k (items.map v) opt)
    (hbig : opt < 3 * ((maxL b.sums - minL b.sums : Nat) : Int)) : (maxL b.sums : Int) = opt := by
  obtain ⟨T, hT, hp⟩ := LPT43.packable_of_opt hopt
  obtain ⟨h1, _⟩ := kk_facts (by omega) hne hb
  have h2 := Oracle.optimal_le_partition hopt h1
  simp only [Objective.value, Bool.false_eq_true, if_false] at h2
  rcases kk_large_dichotomy hk hne hb hp with h | h
  · omega
  · omega

/-- **(iv) Michiels–Korst–Aarts–van Leeuwen 2007 (upper bound).**  For `k ≥ 1` bins the largest sum of the
    Karmarkar–Karp differencing method is at most `4/3 − 1/(3k)` times the optimal largest sum. -/
theorem kk_four_thirds {v : α → Nat} {k : Nat} {items : List α} (hk : 0 < k) (hne : items ≠ []) {b : Bins α}
    {opt : Int} (hb : kk v k items = .ok b) (hopt : IsOptimalValue .minLargest k (items.map v) opt) :
    3 * k * (maxL b.sums : Int) ≤ (4 * k - 1) * opt := by
  obtain ⟨T, hT, hp⟩ := LPT43.packable_of_opt hopt
  by_cases hk1 : k = 1
  · -- one bin: the spread is zero
    obtain ⟨_, _, h4, _, _⟩ := kk_facts hk hne hb
    refine kk_four_thirds_small hk hne hb hopt (x := 0) ?_ (by omega)
    subst hk1
    match hs : b.sums, h4 with
    | [s], _ => simp [maxL, minL]
    | [], h4 => simp at h4
    | _ :: _ :: _, h4 => simp at h4
  · rcases kk_large_dichotomy (by omega) hne hb hp with h | h
    · exact kk_four_thirds_small hk hne hb hopt (x := maxL b.sums - minL b.sums) (Nat.le_refl _) (by omega)
    · apply LPT43.cast_bound hT
      exact LPT43.arith_large hk h

/-- **Fischetti–Martello 1987**: for two bins the ratio is at most `7/6` -/
theorem kk_two_seven_sixths {v : α → Nat} {items : List α} (hne : items ≠ []) {b : Bins α} {opt : Int}
    (hb : kk v 2 items = .ok b) (hopt : IsOptimalValue .minLargest 2 (items.map v) opt) :
    6 * (maxL b.sums : Int) ≤ 7 * opt := by
  have := kk_four_thirds (by decide) hne hb hopt
  push_cast at this
  linarith

end Main

/-! ## 11. Non-vacuity -/

/-- `[5, 5, 4, 4, 3, 3, 3]` on three bins: the optimum is `9` (`5+4 | 5+4 | 3+3+3`) -/
theorem opt_5544333 : IsOptimalValue .minLargest 3 ([5, 5, 4, 4, 3, 3, 3].map id) 9 :=
  LPT43.isOptimal_of_total (asg := [0, 1, 0, 1, 2, 2, 2]) (T := 9) ⟨rfl, by decide⟩ (by decide) (by decide)

/-- `[2, 2, 1]` on three bins: the optimum is `2` -/
theorem opt_221 : IsOptimalValue .minLargest 3 ([2, 2, 1].map id) 2 :=
  LPT43.isOptimal_of_total (asg := [0, 1, 2]) (T := 2) ⟨rfl, by decide⟩ (by decide) (by decide)

-- (i) the critical inequality on Graham's instance: the final tuple is `(5, 7)`, spread `2`: `2·7 + 2 ≤ 12 + 2·2`
example : ∃ b, kk id 2 [3, 3, 2, 2, 2] = .ok b ∧ 2 * maxL b.sums + 2 ≤ binSum id [3, 3, 2, 2, 2] + 2 * 2 :=
  ⟨_, rfl, kk_critical (v := id) (x := 2) (by decide) (by decide) rfl (by decide)⟩

example : ∃ b, kk id 2 [3, 3, 2, 2, 2] = .ok b ∧ ∃ y ∈ [3, 3, 2, 2, 2], maxL b.sums - minL b.sums ≤ id y ∧
    (∀ z ∈ [3, 3, 2, 2, 2], maxL b.sums - minL b.sums ≤ id z → id y ≤ id z) ∧
    2 * maxL b.sums + id y ≤ binSum id [3, 3, 2, 2, 2] + 2 * id y :=
  ⟨_, rfl, kk_critical_item (v := id) (by decide) (by decide) rfl⟩

-- (ii) the small case: spread `2`, optimum `6`
example : ∃ b, kk id 2 [3, 3, 2, 2, 2] = .ok b ∧ 3 * (2 : Nat) * (maxL b.sums : Int) ≤ (4 * (2 : Nat) - 1) * 6 :=
  ⟨_, rfl, kk_four_thirds_small (v := id) (x := 2) (by decide) (by decide) rfl LPT43.opt_33222 (by decide)
    (by decide)⟩

-- (iii) the dichotomy with the feasible capacity `9` on three bins; here the first alternative holds
example : ∃ b, kk id 3 [5, 5, 4, 4, 3, 3, 3] = .ok b ∧
    (3 * (maxL b.sums - minL b.sums) ≤ 9 ∨ maxL b.sums ≤ 9) :=
  ⟨_, rfl, kk_large_dichotomy (v := id) (k := 3) (T := 9) (items := [5, 5, 4, 4, 3, 3, 3]) (by decide)
    (by decide) rfl ⟨[0, 1, 0, 1, 2, 2, 2], ⟨rfl, by decide⟩, by decide⟩⟩

-- ... and an instance in which the spread exceeds a third of the optimum, so that the output is optimal
example : ∃ b, kk id 3 [2, 2, 1] = .ok b ∧ (maxL b.sums : Int) = 2 :=
  ⟨_, rfl, kk_optimal_of_large_spread (v := id) (by decide) (by decide) rfl opt_221 (by decide)⟩

-- (iv) the theorem; tight for `k = 2` on Graham's instance (`7 / 6 = 4/3 − 1/6`), strict for the `k = 3` instance
example : ∃ b, kk id 2 [3, 3, 2, 2, 2] = .ok b ∧ 3 * (2 : Nat) * (maxL b.sums : Int) ≤ (4 * (2 : Nat) - 1) * 6 :=
  ⟨_, rfl, kk_four_thirds (v := id) (by decide) (by decide) rfl LPT43.opt_33222⟩
example : ∃ b, kk id 2 [3, 3, 2, 2, 2] = .ok b ∧ 3 * (2 : Nat) * (maxL b.sums : Int) = (4 * (2 : Nat) - 1) * 6 :=
  ⟨_, rfl, by decide⟩
example : ∃ b, kk id 3 [5, 5, 4, 4, 3, 3, 3] = .ok b ∧ 3 * (3 : Nat) * (maxL b.sums : Int) ≤ (4 * (3 : Nat) - 1) * 9 :=
  ⟨_, rfl, kk_four_thirds (v := id) (by decide) (by decide) rfl opt_5544333⟩
example : ∃ b, kk id 3 [5, 5, 4, 4, 3, 3, 3] = .ok b ∧ maxL b.sums = 10 := ⟨_, rfl, by decide⟩
example : ∃ b, kk id 2 [3, 3, 2, 2, 2] = .ok b ∧ 6 * (maxL b.sums : Int) ≤ 7 * 6 :=
  ⟨_, rfl, kk_two_seven_sixths (v := id) (by decide) rfl LPT43.opt_33222⟩

/-
#print axioms Prtpy.KK43.kk_four_thirds
  -- 'Prtpy.KK43.kk_four_thirds' depends on axioms: [propext, Classical.choice, Quot.sound]
#print axioms Prtpy.KK43.kk_large_dichotomy
  -- 'Prtpy.KK43.kk_large_dichotomy' depends on axioms: [propext, Classical.choice, Quot.sound]
#print axioms Prtpy.KK43.kk_critical
  -- 'Prtpy.KK43.kk_critical' depends on axioms: [propext, Classical.choice, Quot.sound]
#print axioms Prtpy.KK43.kk_critical_item
  -- 'Prtpy.KK43.kk_critical_item' depends on axioms: [propext, Classical.choice, Quot.sound]
#print axioms Prtpy.KK43.kk_four_thirds_small
  -- 'Prtpy.KK43.kk_four_thirds_small' depends on axioms: [propext, Classical.choice, Quot.sound]
#print axioms Prtpy.KK43.kk_optimal_of_large_spread
  -- 'Prtpy.KK43.kk_optimal_of_large_spread' depends on axioms: [propext, Classical.choice, Quot.sound]
#print axioms Prtpy.KK43.kk_two_seven_sixths
  -- 'Prtpy.KK43.kk_two_seven_sixths' depends on axioms: [propext, Classical.choice, Quot.sound]
-/

end Prtpy.KK43
