import Prtpy.Basic
import Prtpy.Bins
import Prtpy.Objectives
import Prtpy.Model.Simple
